"""Regenerate /verif/MANIFEST.json from the check modules (run with /venv/bin/python)."""
import glob
import json
import os
import sys

HERE = os.path.dirname(os.path.dirname(os.path.abspath(__file__)))
sys.path.insert(0, HERE)
from mcx import core  # noqa: E402

core.bind_repo()
props = [json.loads(l) for l in open(os.path.join(HERE, 'properties.jsonl'))]
have = {os.path.basename(p)[:-3].upper() for p in glob.glob(os.path.join(HERE, 'checks', 'c[0-9]*.py'))}
have &= {l.strip() for l in open(os.path.join(HERE, 'tools', 'claimed.txt')) if l.strip()}
NA_REASONS = {}
na_path = os.path.join(HERE, 'tools', 'not_applicable.json')
if os.path.exists(na_path):
    NA_REASONS = json.load(open(na_path))

checks = []
na = []
for p in props:
    pid = p['id']
    if pid in have and pid not in NA_REASONS:
        c = core.load_check(pid)
        checks.append({
            'property_id': pid,
            'quick_cmd': f'./check {pid} --tier quick',
            'thorough_cmd': f'./check {pid} --tier thorough',
            'evidence_file': f'/verif/evidence/{pid}.json',
            'replay_cmd_template': f'./check {pid} --replay {{path}}',
            'engine': 'mcx',
            'level_claimed': {'category': c.level, 'text': c.level_text,
                              'design_ref': f'DESIGN.md section 3, {pid}'},
            'level_note': c.level_note,
            'technique': c.technique,
        })
    else:
        na.append({'property_id': pid,
                   'reason': NA_REASONS.get(pid, 'check not built yet (work in progress); nothing is claimed for it')})

baseline = json.load(open('/root/.vp/BASELINE.json'))['cmd'].replace('<file>', '/dev/shm/gaddlemaps-baseline.junit.xml')
man = {
    'version': 1,
    'setup_cmd': './setup.sh',
    'hooks': {
        'guard': 'GADDLEMAPS_VERIF',
        'enable': 'no source hooks: all seams are attribute injection from the harness process '
                  '(np.random.*, module globals such as gaddlemaps._cli.set, gaddlemaps.parsers.open, '
                  'gaddlemaps._alignment.minimize_molecules); checks import /repo as it stands',
        'baseline_off_cmd': baseline,
        'source_commits': [],
        'add_only': True,
    },
    'engines': [{
        'name': 'mcx', 'path': '/verif/mcx',
        'serves_properties': sorted(c['property_id'] for c in checks),
        'kind_free_text': 'hand-written exhaustive explorer executing the real implementation: stateless '
                          'choice-point DFS by prefix replay with deviation/horizon bounds, explicit-state BFS '
                          'over operation histories with canonical keys, crash-image enumeration over a recording '
                          'file, complete enumeration of finite input alphabets; reference models in Python',
    }],
    'checks': checks,
    'not_applicable': na,
    'notes': 'All checks run /venv/bin/python against the working tree of $VERIF_REPO (default /repo). '
             'VERIF_SEED only selects generic coordinate tables; it never decides whether a case is explored.',
}
json.dump(man, open(os.path.join(HERE, 'MANIFEST.json'), 'w'), indent=1)
print('claimed', [c['property_id'] for c in checks], 'n/a', [x['property_id'] for x in na])
