"""tools/seed_prompts.py : write /tmp/seed/<PID>-prompt.md for every property (property text + the list of
already-kept seeded changes, so that a new sub-agent looks for different mechanisms) and print the numbering."""
import glob, json, os, re
V = os.path.dirname(os.path.dirname(os.path.abspath(__file__)))
props = {json.loads(l)['id']: json.loads(l) for l in open(os.path.join(V, 'properties.jsonl'))}
T = open(os.path.join(V, 'tools', 'seed_prompt.tmpl')).read()
known = {}
for d in glob.glob(os.path.join(V, 'seeded', 'C*-*')):
    pid, k = os.path.basename(d).split('-')
    nm = os.path.join(d, 'notes.md')
    if os.path.exists(nm):
        t = open(nm).read().strip().split('\n')
        title = re.sub(r'^#\s*C\d+ change \d+\s*[-—]\s*', '', t[0])
        ch = [x for x in t if x.startswith('- Change:')]
        known.setdefault(pid, []).append((int(k), title + (' [' + ch[0][10:230].strip() + ']' if ch else '')))
os.makedirs('/tmp/seed', exist_ok=True)
for pid in sorted(props):
    ks = sorted(known.get(pid, []))
    top = max([k for k, _ in ks] + [0])
    kn = '\n'.join(f'* {x}' for _, x in ks) or '* (none yet)'
    open(f'/tmp/seed/{pid}-prompt.md', 'w').write(
        T.format(wt=f'/tmp/seed/{pid}-wt', out=f'/tmp/seed/{pid}-out', pid=pid,
                 prop=json.dumps(props[pid], indent=1), known=kn, k1=top + 1, k2=top + 2, k3=top + 3))
    print(pid, top + 1, top + 2, top + 3)
