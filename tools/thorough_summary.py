"""tools/thorough_summary.py <evidence dir> : summarise a thorough sweep into results/thorough.json (not evidence)."""
import glob, json, os, sys
V = os.path.dirname(os.path.dirname(os.path.abspath(__file__)))
out = {}
for f in sorted(glob.glob(os.path.join(sys.argv[1], 'C*.json'))):
    e = json.load(open(f))
    if e.get('tier') != 'thorough':
        continue
    c = e['coverage']
    out[e['property_id']] = {'evaluations': c['evaluations'], 'distinct_nontrivial': c['distinct_nontrivial'],
                             'states': c.get('states', '-'), 'transitions': c.get('transitions', '-'),
                             'cut_at_horizon': c.get('cut_at_horizon', 0), 'wall_s': e['wall_s'],
                             'violations': e.get('violations', 0), 'seed': e['seed'], 'bounds': c.get('bounds')}
json.dump(out, open(os.path.join(V, 'results', 'thorough.json'), 'w'), indent=1)
print(len(out), 'checks summarised')
