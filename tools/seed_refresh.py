"""tools/seed_refresh.py : re-run every kept seeded change against its property's quick check (tools/seed_matrix.sh)
and bring seeded/<id>/meta.json up to date (checks, detected, history from seeded/NOTES.json)."""
import json, os, subprocess, sys
V = os.path.dirname(os.path.dirname(os.path.abspath(__file__)))
notes = json.load(open(os.path.join(V, 'seeded', 'NOTES.json')))
out = subprocess.run([os.path.join(V, 'tools', 'seed_matrix.sh')] + sys.argv[1:], capture_output=True, text=True,
                     env=dict(os.environ, JOBS=os.environ.get('JOBS', '6'))).stdout
res = {}
for ln in out.splitlines():
    f = ln.split()
    if len(f) >= 3:
        res.setdefault(f[0], []).append({'check': f[1], 'exit': int(f[2].split('=')[1]),
                                         'first_signature': f[3].split('=', 1)[1] if len(f) > 3 else None})
bad = 0
for sid, checks in sorted(res.items()):
    mp = os.path.join(V, 'seeded', sid, 'meta.json')
    meta = json.load(open(mp))
    meta['property'] = sid.split('-')[0]
    meta.setdefault('what_i_ran', {})['checks'] = [c for c in checks if c['check'] == meta['property'] or c['exit'] == 1]
    meta['detected'] = any(c['exit'] == 1 for c in checks)
    if sid in notes:
        meta['history'] = notes[sid]
    json.dump(meta, open(mp, 'w'), indent=1)
    own = [c for c in checks if c['check'] == meta['property']]
    other = os.path.join(V, 'seeded', sid, 'check')          # reported by another property's check (named in that file)
    if os.path.exists(other) and not (own and own[0]['exit'] == 1):
        own = [c for c in checks if c['check'] == open(other).read().strip()] or own
    ok = own and own[0]['exit'] == 1
    bad += not ok
    print(sid, 'detected' if ok else 'MISSED', own[0]['first_signature'] if own else '')
print('missed:', bad)
