#!/bin/sh
# tools/mut.sh <patch.diff> <PID> [PID...]   -- run quick checks against a scratch copy of /repo with the patch applied
# ORIG=1 tools/mut.sh /dev/null <PID>  runs against the pinned pre-fix tree (commit 205e580) instead.
# env TIER=thorough to use the thorough tier; SEEDS="0 1 2" to repeat.
PATCH="$(realpath "$1")"; shift
D="$(mktemp -d /dev/shm/mutrepo-XXXXXX)"
trap 'rm -rf "$D"' EXIT
if [ -n "$ORIG" ]; then git -C /repo archive 205e580 gaddlemaps | tar -x -C "$D"; else cp -r /repo/gaddlemaps "$D/gaddlemaps"; fi
find "$D" -name __pycache__ -prune -exec rm -rf {} +
if [ "$PATCH" != "$(realpath /dev/null)" ]; then ( cd "$D" && patch -s -p1 < "$PATCH" ) || { echo "PATCH FAILED"; exit 3; }; fi
rc=0
for pid in "$@"; do
  for seed in ${SEEDS:-0}; do
    out="$(VERIF_EVIDENCE_DIR="$D/ev" VERIF_REPLAY_DIR="$D/rp" VERIF_SEED=$seed VERIF_REPO="$D" /verif/check "$pid" --tier "${TIER:-quick}" 2>&1)"; r=$?
    echo "== $pid seed=$seed exit=$r"; echo "$out" | grep -E 'VIOLATION|HARNESS|KNOWN|signature|tier=' | head -8
  done
done
