"""tools/seed_keep.py <results.log>... : keep confirmed seeded changes under /verif/seeded/<PID>-<k>/.

A change is kept only if the demonstration passed on the clean tree (exit 0), failed with the
patch (exit != 0) and the pinned suite's stable tests all still passed with the patch.
"""
import json
import os
import re
import shutil
import sys

VERIF = os.path.dirname(os.path.dirname(os.path.abspath(__file__)))
pat = re.compile(r'RESULT (C\d+)/(\d+) demo_clean=(\d+) demo_patched=(\d+) suite: (.*?) checks:(.*)$')
notes_extra = {}
extra_path = os.path.join(VERIF, 'seeded', 'NOTES.json')
if os.path.exists(extra_path):
    notes_extra = json.load(open(extra_path))
for log in sys.argv[1:]:
    for line in open(log):
        m = pat.match(line.strip())
        if not m:
            continue
        pid, k, d0, d1, suite, checks = m.groups()
        src = f'/tmp/seed/{pid}-out/{k}'
        dst = os.path.join(VERIF, 'seeded', f'{pid}-{k}')
        ok = d0 == '0' and d1 != '0' and ('stable_missing []' in suite or suite == 'skipped')
        if not ok or not os.path.isdir(src):
            print('NOT KEPT', pid, k, line.strip()[:160])
            continue
        os.makedirs(dst, exist_ok=True)
        for f in ('patch.diff', 'demo.py', 'notes.md'):
            if os.path.exists(os.path.join(src, f)):
                shutil.copy(os.path.join(src, f), os.path.join(dst, f))
        det = re.findall(r'\[(C\d+) exit=(\d+)\s+(?:signature=(\S+))?', checks)
        meta_path = os.path.join(dst, 'meta.json')
        meta = json.load(open(meta_path)) if os.path.exists(meta_path) else {}
        notes = open(os.path.join(src, 'notes.md')).read() if os.path.exists(os.path.join(src, 'notes.md')) else ''
        meta.update({
            'property': pid,
            'source': 'independent sub-agent given only the property text and a scratch worktree',
            'needs_to_manifest': notes.strip().split('\n')[2][:600] if len(notes.strip().split('\n')) > 2 else notes[:600],
            'what_i_ran': {
                'demo_on_clean_tree_exit': int(d0), 'demo_with_patch_exit': int(d1),
                'pinned_suite_with_patch': suite if suite != 'skipped' else meta.get('what_i_ran', {}).get('pinned_suite_with_patch', 'skipped'),
                'checks': [{'check': c, 'exit': int(e), 'first_signature': s or None} for c, e, s in det],
            },
            'detected': any(e == '1' for _, e, _ in det),
        })
        if f'{pid}-{k}' in notes_extra:
            meta['history'] = notes_extra[f'{pid}-{k}']
        json.dump(meta, open(meta_path, 'w'), indent=1)
        print('kept', pid, k, 'detected' if meta['detected'] else 'MISSED', [d[2] for d in det])
