"""tools/design_tables.py : regenerate the generated part of DESIGN.md (between the GENERATED markers) from
evidence/*.json (quick), results/thorough.json (summary of the last thorough sweep), results/mutants.tsv and
seeded/*/meta.json."""
import glob, json, os, re, sys
V = os.path.dirname(os.path.dirname(os.path.abspath(__file__)))
sys.path.insert(0, V)
from mcx import core
core.bind_repo()
props = [json.loads(l) for l in open(os.path.join(V, 'properties.jsonl'))]
th = {}
tp = os.path.join(V, 'results', 'thorough.json')
if os.path.exists(tp):
    th = json.load(open(tp))
out = []
out.append('### 9.1 Checks as built (numbers measured by the checks themselves)\n')
out.append('| id | level | quick: cases / distinct non-trivial / states / wall | thorough: cases / states / wall | deciding technique |')
out.append('|---|---|---|---|---|')
for p in props:
    pid = p['id']
    c = core.load_check(pid)
    ev = json.load(open(os.path.join(V, 'evidence', pid + '.json')))
    cov = ev['coverage']
    q = f"{cov['evaluations']:,} / {cov['distinct_nontrivial']:,} / {cov.get('states', '-') if c.level == 'model_checking' else '-'} / {ev['wall_s']:.0f} s"
    t = th.get(pid)
    ts = f"{t['evaluations']:,} / {t.get('states', '-')} / {t['wall_s']:.0f} s" if t else 'n/a'
    out.append(f"| {pid} | {c.level} | {q} | {ts} | {c.technique} |")
out.append('')
mp = os.path.join(V, 'results', 'mutants.tsv')
if os.path.exists(mp):
    rows = [l.rstrip('\n').split('\t') for l in open(mp) if l.strip()]
    out.append('### 9.2 Hand-written mutants (tools/mut.sh; every one keeps the pinned suite green in spirit) and what reports them\n')
    out.append('| mutant | check | result | first signature |')
    out.append('|---|---|---|---|')
    for r in rows:
        out.append('| ' + ' | '.join(r) + ' |')
    out.append('')
out.append('### 9.3 Independently seeded changes (sub-agents given only the property text) and what reports them\n')
out.append('| id | what the change is | needs | suite with patch | reported by (first signature) | history |')
out.append('|---|---|---|---|---|---|')
for d in sorted(glob.glob(os.path.join(V, 'seeded', 'C*-*')), key=lambda x: (x.split('/')[-1].split('-')[0], int(x.split('-')[-1]))):
    sid = os.path.basename(d)
    meta = json.load(open(os.path.join(d, 'meta.json')))
    notes = open(os.path.join(d, 'notes.md')).read().strip().split('\n') if os.path.exists(os.path.join(d, 'notes.md')) else ['']
    title = re.sub(r'^#\s*C\d+ change \d+\s*[-—]\s*', '', notes[0]).replace('|', '/')
    needs = next((x[len('- Manifests only for:'):].strip() for x in notes if x.startswith('- Manifests only for:')), meta.get('needs_to_manifest', ''))
    needs = needs.replace('|', '/')[:220]
    det = '; '.join(f"{c['check']}: {c['first_signature']}" for c in meta.get('what_i_ran', {}).get('checks', []) if c.get('exit') == 1) or 'NOT DETECTED'
    suite = meta.get('what_i_ran', {}).get('pinned_suite_with_patch', '')
    hist = meta.get('history', 'detected by the check as it stood').replace('|', '/')
    out.append(f"| {sid} | {title} | {needs} | {suite} | {det} | {hist} |")
out.append('')
text = '\n'.join(out)
dp = os.path.join(V, 'DESIGN.md')
s = open(dp).read()
a, b = '<!-- GENERATED:BEGIN -->', '<!-- GENERATED:END -->'
if a in s and b in s:
    s = s[:s.index(a) + len(a)] + '\n' + text + '\n' + s[s.index(b):]
    open(dp, 'w').write(s)
    print('DESIGN.md updated:', len(text), 'chars')
else:
    print(text)
