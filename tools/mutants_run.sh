#!/bin/sh
# tools/mutants_run.sh -- run every hand-written mutant (mutants/cNN_*.diff) against its property's quick check on a
# scratch copy of /repo (tools/mut.sh) and rewrite results/mutants.tsv (name, property, detected|MISSED, first signature).
cd "$(dirname "$0")/.." || exit 2
ls mutants/*.diff | xargs -P ${JOBS:-6} -n 1 sh -c 'm=$0; b=$(basename $m .diff); pid=$(echo $b | cut -c1-3 | tr c C); out=$(tools/mut.sh $m $pid 2>&1); ex=$(echo "$out" | grep -o "exit=[0-9]*" | head -1); sig=$(echo "$out" | grep -m1 -o "signature=[^ ]*" | cut -d= -f2-); if [ "$ex" = "exit=1" ]; then st=detected; else st=MISSED; fi; printf "%s\t%s\t%s\t%s\n" "$b" "$pid" "$st" "$sig"' | sort > results/mutants.tsv.new
mv results/mutants.tsv.new results/mutants.tsv
grep -c detected results/mutants.tsv; grep MISSED results/mutants.tsv
