#!/bin/sh
# tools/seed_matrix.sh [ALL]  -- run every kept seeded change (seeded/<PID>-<k>/patch.diff) against its property's
# quick check (or, with ALL, against every claimed check) on a scratch copy of /repo; prints one line per pair.
cd "$(dirname "$0")/.." || exit 2
mode="$1"
for d in seeded/${ONLY:-C*}-*/; do
  id=$(basename "$d"); pid=${id%-*}
  if [ "$mode" = ALL ]; then checks=$(cat tools/claimed.txt | sort -u | tr '\n' ' '); else checks=$pid; fi
  # seeded/<id>/check names the check that reports a change whose own property's check cannot reach it (see notes there)
  if [ "$mode" != ALL ] && [ -f "seeded/$id/check" ]; then checks="$pid $(cat seeded/$id/check)"; fi
  for c in $checks; do echo "$id $c"; done
done | xargs -P ${JOBS:-4} -L 1 sh -c 'tier=quick; [ -f seeded/$0/tier ] && tier=$(cat seeded/$0/tier); out=$(TIER=$tier tools/mut.sh seeded/$0/patch.diff $1 2>&1); echo "$0 $1 $(echo "$out" | grep -o "exit=[0-9]*" | head -1) $(echo "$out" | grep -m1 -o "signature=[^ ]*")"' | sort
