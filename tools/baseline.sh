#!/bin/sh
# Runs the repository's pinned suite (guard off) and compares with BASELINE.json stable_pass.
REPO="${1:-/repo}"
OUT=/dev/shm/gaddlemaps-baseline.$$.xml
cd "$REPO" && /venv/bin/python -m pytest -ra -q -p no:cacheprovider --timeout=900 --continue-on-collection-errors --junitxml=$OUT > /dev/shm/baseline.$$.log 2>&1
/venv/bin/python - "$OUT" <<'PY'
import json, sys, xml.etree.ElementTree as ET
base = json.load(open('/root/.vp/BASELINE.json'))
passed = set()
for tc in ET.parse(sys.argv[1]).getroot().iter('testcase'):
    if not any(c.tag in ('failure', 'error', 'skipped') for c in tc):
        passed.add(f"{tc.get('classname')}::{tc.get('name')}")
missing = [t for t in base['stable_pass'] if t not in passed]
print('passed', len(passed), 'stable_missing', missing)
sys.exit(1 if missing else 0)
PY
rc=$?
rm -f $OUT /dev/shm/baseline.$$.log
exit $rc
