#!/bin/sh
# tools/seed_eval.sh <PID> <k> [check ids...]  -- confirm a seeded change delivered in /tmp/seed/<PID>-out/<k>:
#   demo passes on the clean worktree and fails with the patch; the pinned suite's stable tests still pass with the patch;
#   then run the given checks (default: <PID>) against a scratch copy with the patch applied.
PID="$1"; K="$2"; shift 2
CHECKS="${*:-$PID}"
SRC=/tmp/seed/$PID-out/$K
WT=/tmp/seedeval/$PID-$K
rm -rf "$WT"; mkdir -p /tmp/seedeval
git -C /repo worktree add -q --detach "$WT" HEAD || exit 3
cleanup() { git -C /repo worktree remove --force "$WT" 2>/dev/null; rm -rf "$WT"; }
trap cleanup EXIT
cp "$SRC/demo.py" "$WT/demo.py"
( cd "$WT" && /venv/bin/python -W ignore demo.py >/dev/null 2>&1 ); d0=$?
( cd "$WT" && git apply "$SRC/patch.diff" ) || { echo "RESULT $PID/$K patch-does-not-apply"; exit 3; }
( cd "$WT" && /venv/bin/python -W ignore demo.py >/dev/null 2>&1 ); d1=$?
if [ -z "$SKIP_SUITE" ]; then suite="$(/verif/tools/baseline.sh "$WT" 2>&1 | tail -1)"; else suite="skipped"; fi
( cd "$WT" && git diff HEAD -- gaddlemaps > /tmp/seedeval/$PID-$K.diff )
res=""
for c in $CHECKS; do
  out="$(/verif/tools/mut.sh /tmp/seedeval/$PID-$K.diff $c 2>&1)"
  ex="$(echo "$out" | grep -o 'exit=[0-9]*' | head -1)"
  sig="$(echo "$out" | grep -m1 'signature=' | sed 's/ detail=.*//' | cut -c1-150)"
  res="$res [$c $ex $sig]"
done
rm -f /tmp/seedeval/$PID-$K.diff
echo "RESULT $PID/$K demo_clean=$d0 demo_patched=$d1 suite: $suite checks:$res"
