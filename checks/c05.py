"""C05 - system extrapolation conserves molecules, order, numbering, box and title.

Enumerated completely (no sampling): every molecule sequence up to a length bound over
the species alphabet {S1, S2, S3, S4, U, W}, every non-empty subset of the mappable
species present given an end molecule, two boxes, two scale factors, and the failure
modes (nothing attached / maps never computed / one map missing).  Every case runs the
real Manager on in-memory input files, writes the output into a scratch directory and
re-reads it with the small fixed-width reader below.
"""
import itertools
import os

import numpy as np

from mcx.build import MemFile, Scratch, generic_points, generic_rotations, gro_text, itp_text
from mcx.core import Check
from mcx.seams import owned_random

LETTERS = ('S1', 'S2', 'S3', 'S4', 'U', 'W')
MAPPABLE = ('S1', 'S2', 'S3', 'S4')
# Species whose two resolutions have a different number of residues (S5: 1 -> 2, S6: 2 -> 1) are
# OUTSIDE the property's premise: "carries the residue numbers of its input molecule" and "equals
# its species' exchange map applied to that input molecule" are undefined there (the exchange map
# itself refuses the call: Molecule.resids setter raises ValueError).  Off by default; with
# C05_RESCOUNT=1 a small extra unit runs them and records what happens under informational
# counters and outcome labels only - never as a violation.
RESCOUNT = ('S5', 'S6') if os.environ.get('C05_RESCOUNT') == '1' else ()
ALL = LETTERS + ('S5', 'S6', 'S7', 'S8')
SHARED = ('S7', 'S8')          # two loadable species that share a residue kind (see SPECIES)
SCALES = (0.5, 1.0)
BOXES = ('rect', 'tric', 'hex', 'gen')
TOL_FMT = 0.5e-3 + 1e-9          # coordinate format: 3 decimals
TOL_INV = 0.9e-3                 # a length built from three rounded components
TOL_BOX = 5e-6


def _chain(n):
    return [(i, i + 1) for i in range(n - 1)]


# name -> (start atoms, start bonds, end atoms, end bonds); atoms = (name, resname, resid)
SPECIES = {
    'S1': ([('B1', 'S1R', 1), ('B2', 'S1R', 1), ('B3', 'S1R', 1)], _chain(3),
           [(f'C{i + 1}', 'S1A', 1) for i in range(6)], _chain(6)),
    'S2': ([('A1', 'S2X', 1), ('B1', 'S2Y', 2), ('B2', 'S2Y', 2), ('B3', 'S2Y', 2)], _chain(4),
           [('H1', 'S2P', 1), ('H2', 'S2P', 1), ('C1', 'S2Q', 2), ('C2', 'S2Q', 2),
            ('C3', 'S2Q', 2), ('C4', 'S2Q', 2)], _chain(6)),
    'S3': ([('D1', 'S3R', 1), ('D2', 'S3R', 1)], _chain(2),
           [('N1', 'S3A', 1), ('N2', 'S3A', 1), ('N3', 'S3A', 1)], _chain(3)),
    'S4': ([('E1', 'S4R', 1)], [],
           [('O1', 'S4A', 1), ('O2', 'S4A', 1)], _chain(2)),
    # one residue -> two residues, two residues -> one residue
    'S5': ([('G1', 'S5R', 1), ('G2', 'S5R', 1), ('G3', 'S5R', 1)], _chain(3),
           [('P1', 'S5P', 1), ('P2', 'S5P', 1), ('Q1', 'S5Q', 2), ('Q2', 'S5Q', 2)], _chain(4)),
    'S6': ([('J1', 'S6X', 1), ('K1', 'S6Y', 2), ('K2', 'S6Y', 2)], _chain(3),
           [('R1', 'S6A', 1), ('R2', 'S6A', 1), ('R3', 'S6A', 1), ('R4', 'S6A', 1)], _chain(4)),
    # S7's second residue and S8's only residue are of the same KIND (name TLR, one atom T1): the topologies are loaded
    # S7 first (the order in which the library can tell them apart), each TLR residue belongs to exactly one molecule
    'S7': ([('H1', 'HDR', 1), ('H2', 'HDR', 1), ('T1', 'TLR', 2)], _chain(3),
           [('X1', 'S7P', 1), ('X2', 'S7P', 1), ('Y1', 'S7Q', 2), ('Y2', 'S7Q', 2)], _chain(4)),
    'S8': ([('T1', 'TLR', 1)], [],
           [('Z1', 'S8A', 1), ('Z2', 'S8A', 1)], _chain(2)),
    'U': ([('U1', 'UNM', 1), ('U2', 'UNM', 1)], _chain(2), None, None),
    'W': ([('W', 'W', 1)], [], None, None),
}
# workflow histories on ONE Manager (system S1 S2 W S1 U): attach through add_end_molecule, attach / detach through
# the documented molecule_correspondence[name].end attribute, compute maps, extrapolate
HIST_SEQ = ['S1', 'S2', 'W', 'S1', 'U']
HIST_EVENTS = ('extr', 'calc', 'add:S1', 'add:S2', 'set:S1', 'set:S2', 'det:S1', 'det:S2', 'frame', 'cmp', 'init:S1')
END_RESID_OFFSET = 76             # residue numbers carried by the end-resolution files

BOX = {'rect': np.array([7.25, 6.5, 8.125]),
       'tric': np.array([[7.25, 0.0, 0.0], [1.5, 6.5, 0.0], [0.75, 2.125, 8.125]]),
       # hexagonal cell (gamma = 120 deg): its only off-diagonal component is NEGATIVE; this class also
       # carries a title with multi-byte characters (when the default text encoding can hold them)
       'hex': np.array([[6.0, 0.0, 0.0], [-3.0, 5.19615, 0.0], [0.0, 0.0, 8.125]]),
       # lattice vectors in a general orientation (all nine numbers of the box line non-zero, v1(y), v1(z), v2(z) too):
       # read by the library's parser like any other nine-number line, so it is copied like any other
       'gen': np.array([[3.8, 1.2, 0.3], [0.5, 3.9, 0.4], [-0.25, 0.75, 4.3]])}
import locale
_UTF = 'utf' in locale.getpreferredencoding(False).lower()

DRAWS = {   # owned np.random.rand(3) answers, one table per phase
    'init': np.array([[0.31, 0.77, 0.52], [0.93, 0.12, 0.64], [0.18, 0.45, 0.86]]),
    'extrap': np.array([[0.71, 0.23, 0.39], [0.11, 0.88, 0.47], [0.58, 0.34, 0.95], [0.27, 0.61, 0.08]]),
    'oracle': np.array([[0.42, 0.91, 0.17], [0.83, 0.29, 0.66], [0.05, 0.53, 0.74],
                        [0.64, 0.07, 0.38], [0.36, 0.72, 0.99]]),
}


# ---------------------------------------------------------------------------
# minimal independent fixed-width reader
def read_gro(path):
    with open(path) as fh:
        lines = fh.read().split('\n')
    if lines and lines[-1] == '':
        lines.pop()
    title = lines[0]
    n = int(lines[1])
    atoms = []
    for ln in lines[2:2 + n]:
        w = (len(ln) - 20) // 3
        if '.' in ln[20 + 3 * w:]:           # velocities present
            w = (len(ln) - 20) // 6
        atoms.append((int(ln[0:5]), ln[5:10].strip(), ln[10:15].strip(), int(ln[15:20]),
                      (float(ln[20:20 + w]), float(ln[20 + w:20 + 2 * w]), float(ln[20 + 2 * w:20 + 3 * w]))))
    box = [float(x) for x in lines[2 + n].split()]
    return {'title': title, 'n': n, 'atoms': atoms, 'box': box, 'extra': lines[3 + n:],
            'nlines': len(lines)}


def box_numbers(box):
    """The nine numbers of a .gro box line for a vector (3) or matrix (3, 3) box."""
    box = np.asarray(box, dtype=float)
    if box.shape == (3,):
        return [box[0], box[1], box[2], 0, 0, 0, 0, 0, 0]
    return [box[0, 0], box[1, 1], box[2, 2], box[0, 1], box[0, 2], box[1, 0],
            box[1, 2], box[2, 0], box[2, 1]]


def r3(a):
    """Values as a reader of a 3-decimal coordinate file gets them."""
    return np.array([[float(f'{x:.3f}') for x in p] for p in np.asarray(a)])


# ---------------------------------------------------------------------------
class World:
    """Ground truth of one system: per molecule its species, residue numbers, positions."""

    def __init__(self, seq, box, seed, frame=0):
        self.seq = list(seq)
        self.boxkind = box
        self.title = f'mcx C05 {"-".join(seq)} {box} ; t= {12.5 + 500 * frame}'
        if box == 'tric':                 # leading, inner and trailing blanks belong to the title
            self.title = f'   frame    12   ({"-".join(seq)}: run, replica)  '
        if box == 'hex' and _UTF:
            self.title = f'L\u00edquido i\u00f3nico {"-".join(seq)} \u2013 25 \u00b0C, \u03b1 nm\u00b3'
        rots = generic_rotations(seed, k=5)
        self.mols = []
        recs = []
        resid = 10 + 30 * frame           # another frame: other residue numbers, coordinates, title (and box)
        atomid = 0
        for k, sp in enumerate(self.seq):
            atoms = SPECIES[sp][0]
            base = generic_points(len(atoms), seed, tag=100 + ALL.index(sp)) * 0.45
            rng = np.random.default_rng([int(seed), k, 17])      # generic coordinate table only
            pos = base @ rots[k % len(rots)].T + rng.uniform(-0.02, 0.02, base.shape)
            pos = r3(pos + np.array([1.3 + 0.9 * k, 2.1 + 0.37 * k, 1.7 + 0.61 * k]) + frame * np.array([0.217, -0.133, 0.352]))
            resids = []
            last = None
            for (an, rn, ri), p in zip(atoms, pos):
                if ri != last:
                    resid += 1 + (k + ri) % 2        # strictly increasing, not consecutive
                    resids.append(resid)
                    last = ri
                atomid += 1
                recs.append((resid, rn, an, atomid, p))
            self.mols.append({'sp': sp, 'resids': resids, 'pos': pos})
        self.gro = gro_text(recs, title=self.title, box=BOX[box])
        self.present = [s for s in ALL if s in self.seq]

    def itp(self, sp):
        return itp_text(sp, SPECIES[sp][0], SPECIES[sp][1])


_END_CACHE = {}
_TMPL_CACHE = {}


def end_molecule(sp, first_pos, seed, name=None):
    """End-resolution molecule of species sp overlapping the given start positions.  name: the molecule name in
    the END topology (it need not equal the start one when the molecule is attached through the .end attribute)."""
    from mcx.build import molecule
    key = (sp, seed, name)
    if key not in _END_CACHE:
        atoms, bonds = SPECIES[sp][2], SPECIES[sp][3]
        pts = generic_points(len(atoms), seed, tag=200 + ALL.index(sp)) * 0.35
        _END_CACHE[key] = (molecule(name or sp, atoms, bonds, pts, resid_offset=END_RESID_OFFSET), pts)
    mol, pts = _END_CACHE[key]
    new = mol.deep_copy()
    new.atoms_positions = pts + np.mean(first_pos, axis=0)
    return new


def start_template(sp):
    """A start-resolution molecule built independently of the system under test."""
    from mcx.build import molecule
    if sp not in _TMPL_CACHE:
        atoms, bonds = SPECIES[sp][0], SPECIES[sp][1]
        _TMPL_CACHE[sp] = molecule(sp, atoms, bonds, np.zeros((len(atoms), 3)) +
                                   np.arange(len(atoms))[:, None] * 0.1)
    return _TMPL_CACHE[sp]


def subsets(items):
    for r in range(1, len(items) + 1):
        for c in itertools.combinations(items, r):
            yield list(c)


class C05(Check):
    pid = 'C05'
    level = 'exploration'
    rule = ('case = (molecule sequence, box, subset of the mappable species present that get an end '
            'molecule, scale, mode); modes: maps computed / end molecules attached but maps never computed / '
            'maps computed then one more end molecule attached / nothing attached. Only distinct configurations '
            'are enumerated: an end molecule can only be attached to a species present in the system, the scale '
            'is irrelevant when no map is computed, the subset is irrelevant when nothing is attached. '
            'non-trivial = a file with at least one mapped molecule was written and compared, or the '
            'failure mode raised. Workflow histories: every sequence of a fixed length over 11 events (attach via '
            'add_end_molecule / via the .end attribute, detach, compute maps, hand the manager another frame of the system, write the comparison file of the attached species, give one species its own map through its alignment, extrapolate) ending in extrapolate, on one '
            'Manager, with a 2-bit-per-species model deciding what each extrapolate must write')
    technique = ('exhaustive enumeration of system compositions x attachment subsets x box x scale x '
                 'pre-flight failure modes on the real Manager; output re-read by an independent '
                 'fixed-width reader and compared with the generator ground truth and a direct '
                 'exchange-map call on an independently built input molecule')
    level_text = ('every sequence of 1..3 (quick) / 1..5 (thorough) molecules over 6 species (3-atom, 2-residue, '
                  '2-atom and 1-atom references, an unmapped loaded species, solvent), every attachment subset, '
                  '4 boxes (rectangular, triclinic, hexagonal with a negative component and a non-ASCII title, lattice vectors in a general orientation), system built by the constructor or step by step in reverse order, 2 scales and 3 failure modes are executed on the real code; plus every workflow history of '
                  'length 5 (quick) / 6 (thorough) over 11 manager events; a coverage statement over that finite space')
    level_note = ('trusted: the text builders and the 30-line reader in this module, numpy; alignment is not run '
                  '(the maps are built from the placed coordinates); velocities and non-default coordinate '
                  'precision are not covered. KNOWN LIMITATION (outside the premise, informational only): when the two '
                  'resolutions of a species have a different number of residues the exchange map call raises '
                  'ValueError (Molecule.resids setter) and extrapolate_system leaves a partial file; '
                  'C05_RESCOUNT=1 adds a unit that counts this (info_residue_count_differs_*), never a violation')
    assumptions = ['coordinates from conditioned generic tables selected by VERIF_SEED',
                   'np.random.rand owned: fixed answer tables, different for map construction, extrapolation '
                   'and the oracle call, so equality for 1/2-atom references is decided by the C02 invariants',
                   'end molecules overlap the first instance of their species; no alignment step']

    def units(self, tier, seed):
        lmax = 5 if tier == 'thorough' else 3
        self.bounds = {'sequence_length_max': lmax, 'species': list(LETTERS), 'boxes': list(BOXES),
                       'scales': list(SCALES),
                       'modes': ['computed', 'not_computed', 'partial', 'nothing']}
        u = []
        for n in range(1, lmax + 1):
            fix = 0 if n == 1 else (1 if n == 2 else (2 if n <= 4 else 3))
            for pre in itertools.product(LETTERS, repeat=fix):
                u.append({'n': n, 'pre': list(pre)})
        hdepth = 6 if tier == 'thorough' else 5
        self.bounds['workflow_histories'] = {'system': HIST_SEQ, 'events': list(HIST_EVENTS), 'length': hdepth,
                                             'shape': 'every event sequence of that length ending in extrapolate; '
                                                      'every extrapolate inside a sequence is checked too'}
        for pre in itertools.product(HIST_EVENTS, repeat=2):
            u.append({'hist': hdepth, 'pre': list(pre)})
        if tier == 'thorough':
            # the five-digit boundary: a mapped system of 100 002 atoms (atom numbers wrap, lines keep their width)
            self.bounds['large_system'] = '50 001 one-bead molecules -> 100 002 atoms'
            u.append({'big100k': True})
        self.bounds['species_sharing_a_residue_kind'] = {'species': list(SHARED), 'alphabet': ['S7', 'S8', 'S1', 'W'],
                                                         'sequence_length': [2, 4], 'topologies_loaded': 'S7 before S8'}
        u.append({'shared': True})
        if RESCOUNT:
            self.bounds['residue_count_differs'] = {'species': list(RESCOUNT), 'sequence_length_max': 2,
                                                    'alphabet': list(RESCOUNT) + ['S1', 'W']}
            u.append({'rescount': True})
        return u

    def cases(self, unit, tier, seed):
        if unit.get('rescount'):
            alpha = RESCOUNT + ('S1', 'W')
            for n in (1, 2):
                for seq in itertools.product(alpha, repeat=n):
                    if any(x in RESCOUNT for x in seq):
                        for box in BOXES:
                            yield {'seq': list(seq), 'box': box}
            return
        if unit.get('big100k'):
            yield {'big100k': 1}
            return
        if unit.get('shared'):
            for n in (2, 3, 4):
                for seq in itertools.product(('S7', 'S8', 'S1', 'W'), repeat=n):
                    if 'S7' in seq and 'S8' in seq:
                        yield {'seq': list(seq), 'box': 'rect', 'noadd': 1}
            return
        if unit.get('hist'):
            for mid in itertools.product(HIST_EVENTS, repeat=unit['hist'] - 3):
                yield {'hist': list(unit['pre']) + list(mid) + ['extr']}
            return
        n, pre = unit['n'], unit['pre']
        for rest in itertools.product(LETTERS, repeat=n - len(pre)):
            for box in BOXES:
                yield {'seq': list(pre) + list(rest), 'box': box}

    # ------------------------------------------------------------------
    def check_case(self, case, R, seed):
        if 'hist' in case:
            return self._history(case, R, seed)
        if 'big100k' in case:
            return self._big(case, R, seed)
        world = World(case['seq'], case['box'], seed)
        if 'mode' in case:
            subs = [(case['mode'], case['sub'], case['scale'], case.get('load', 'ctor'))]
        else:
            subs = [('nothing', [], None, 'ctor')]
            present = [s for s in MAPPABLE + RESCOUNT + SHARED if s in world.present]
            nload = len([s for s in world.present if s != 'W'])
            for sub in subsets(present):
                for sc in SCALES:
                    subs.append(('computed', sub, sc, 'ctor'))
                if nload >= 2 and not case.get('noadd'):
                    subs.append(('computed', sub, SCALES[0], 'add'))
                subs.append(('not_computed', sub, None, 'ctor'))
                if len(sub) >= 2:
                    subs.append(('partial', sub, SCALES[0], 'ctor'))
        with Scratch() as d:
            for i, (mode, sub, sc, load) in enumerate(subs):
                desc = dict(case, mode=mode, sub=sub, scale=sc, load=load)
                out = os.path.join(d, f'out{i}.gro')
                self._one(world, desc, out, R, seed)

    def _one(self, world, desc, out, R, seed):
        from gaddlemaps import Manager
        from gaddlemaps.components import System
        mode, sub, sc = desc['mode'], desc['sub'], desc['scale']
        state = {'phase': 'init', 'i': 0}

        def script(kind, a, k):
            assert kind == 'rand' and a == (3,), (kind, a)
            t = DRAWS[state['phase']]
            state['i'] += 1
            return t[state['i'] % len(t)].copy()

        loaded = [s for s in world.present if s != 'W']
        cls = f"{mode}{'/step-by-step' if desc.get('load') == 'add' else ''}/len{len(world.seq)}/{world.boxkind}" + ('/rescount' if any(x in RESCOUNT for x in world.seq) else '')
        with owned_random(script):
            if desc.get('load') == 'add':
                # built step by step, species added in reverse order of first appearance
                system = System(MemFile(world.gro, 'system.gro'))
                for s in loaded[::-1]:
                    system.add_ftop(MemFile(world.itp(s), s + '.itp'))
            else:
                system = System(MemFile(world.gro, 'system.gro'),
                                *[MemFile(world.itp(s), s + '.itp') for s in loaded])
            man = Manager(system)
            first = {}
            for m in world.mols:
                first.setdefault(m['sp'], m['pos'])
            attach = list(sub)
            late = attach.pop() if mode == 'partial' else None
            for s in attach:
                man.add_end_molecule(end_molecule(s, first[s], seed))
            if mode in ('computed', 'partial'):
                man.calculate_exchange_maps(scale_factor=sc)
            if late:
                man.add_end_molecule(end_molecule(late, first[late], seed))
            state['phase'] = 'extrap'
            err = None
            try:
                man.extrapolate_system(out)
            except Exception as e:                      # any exception type is "an error"
                err = e
            exists = os.path.exists(out)

            if mode != 'computed':
                ok = err is not None and not exists
                R.case(desc, nontrivial=err is not None, cls=cls,
                       outcome=f'{mode}:{"raised" if err is not None else "no-error"}:'
                               f'{"file" if exists else "no-file"}')
                if err is None:
                    R.violation(f'preflight/{mode}/no-error', desc, 'extrapolate_system returned normally')
                elif exists:
                    R.violation(f'preflight/{mode}/file-written', desc,
                                f'{type(err).__name__} raised but the output path exists')
                return
            info = any(x in RESCOUNT for x in sub)       # informational unit (outside the premise)
            if err is not None:
                R.case(desc, nontrivial=False, cls=cls, outcome=f'computed:raised:{type(err).__name__}'
                       + (':partial-file-left' if exists else ''))
                if info:
                    R.add('info_residue_count_differs_raised')
                else:
                    R.violation(f'extrapolate/exception/{type(err).__name__}', desc, repr(err)[:300])
                return
            if not exists:
                R.case(desc, nontrivial=False, cls=cls, outcome='computed:no-file')
                R.violation('extrapolate/no-output-file', desc, 'no exception and no file')
                return
            state['phase'] = 'oracle'
            sig, det, nmapped = self._compare(world, desc, out, man)
        R.case(desc, nontrivial=nmapped > 0, cls=cls, outcome=f'computed:{"ok" if sig is None else "bad"}')
        R.add('mapped_molecules_compared', nmapped)
        if sig and info:
            R.add('info_residue_count_differs_mismatch')
        elif sig:
            R.violation(sig, desc, det)

    def _big(self, case, R, seed):
        from gaddlemaps import Manager
        from gaddlemaps.components import System
        n = 50001
        recs = [(i % 99999 + 1, 'S4R', 'E1', (i + 1) % 100000,
                 (0.1 * (i % 100), 0.1 * ((i // 100) % 100), 0.1 * (i // 10000))) for i in range(n)]
        box = np.array([10.0, 10.0, 10.0])
        gro = gro_text(recs, title='one hundred thousand and two atoms', box=box)
        with Scratch() as d, owned_random(lambda kind, a, k: np.array([0.31, 0.77, 0.52])):
            out = os.path.join(d, 'big.gro')
            try:
                man = Manager(System(MemFile(gro, 'system.gro'), MemFile(itp_text('S4', SPECIES['S4'][0], SPECIES['S4'][1]), 'S4.itp')))
                man.add_end_molecule(end_molecule('S4', np.array([recs[0][4]]), seed))
                man.calculate_exchange_maps(scale_factor=0.5)
                man.extrapolate_system(out)
                with open(out) as fh:
                    lines = fh.read().split('\n')
            except Exception as exc:
                R.case(case, nontrivial=False, cls='big100k', outcome='raised')
                R.violation('large-system/exception', case, repr(exc)[:300])
                return
        R.case(case, nontrivial=True, cls='big100k', outcome='written')
        natoms = 2 * n
        body = lines[2:2 + natoms]
        if lines[0] != 'one hundred thousand and two atoms' or lines[1].strip() != str(natoms):
            R.violation('large-system/title-or-count', case, repr(lines[:2]))
        elif len(set(map(len, body))) != 1:
            bad = next(i for i, ln in enumerate(body) if len(ln) != len(body[0]))
            R.violation('large-system/atom-lines-of-different-width', case, f'line {bad + 1}: {body[bad]!r}')
        elif [int(ln[15:20]) for ln in body] != [(k + 1) % 100000 for k in range(natoms)]:
            bad = next(i for i, ln in enumerate(body) if int(ln[15:20]) != (i + 1) % 100000)
            R.violation('large-system/atom-numbers-not-consecutive-modulo-100000', case, f'line {bad + 1}: {body[bad]!r}')
        elif len(lines) < natoms + 3 or [float(x) for x in lines[2 + natoms].split()] != [10.0, 10.0, 10.0]:
            R.violation('large-system/box-differs', case, repr(lines[2 + natoms:2 + natoms + 2]))

    def _history(self, case, R, seed):
        """One workflow history on one real Manager, stepped along a 2-bit-per-species model
        (end attached?, map exists?); every extrapolate is compared with the model."""
        from gaddlemaps import Manager
        from gaddlemaps.components import System
        events = case['hist']
        world = World(HIST_SEQ, 'rect', seed)
        worlds = {0: world}
        state = {'phase': 'init', 'i': 0, 'frame': 0}

        def script(kind, a, k):
            assert kind == 'rand' and a == (3,), (kind, a)
            t = DRAWS[state['phase']]
            state['i'] += 1
            return t[state['i'] % len(t)].copy()

        first = {}
        for m in world.mols:
            first.setdefault(m['sp'], m['pos'])
        attached, mapped = set(), set()
        endname = {}
        n_extr = 0
        with Scratch() as d, owned_random(script):
            system = System(MemFile(world.gro, 'system.gro'),
                            *[MemFile(world.itp(s), s + '.itp') for s in world.present if s != 'W'])
            man = Manager(system)
            for i, ev in enumerate(events):
                op, _, sp = ev.partition(':')
                desc = {'hist': events[:i + 1]}
                state['phase'] = 'init'
                try:
                    if op in ('add', 'set'):
                        # set = attached by hand to the species named by the START topology; the end topology of S2 then
                        # carries another molecule name (legal on this route).  While a species is attached, a
                        # replacement must be an equal molecule: it keeps the name in use (by hand if that is S2AA)
                        nm = endname.get(sp) if sp in attached else ('S2AA' if (op == 'set' and sp == 'S2') else None)
                        if op == 'add' and nm is None:
                            man.add_end_molecule(end_molecule(sp, first[sp], seed))
                        else:
                            man.molecule_correspondence[sp].end = end_molecule(sp, first[sp], seed, name=nm)
                        endname[sp] = nm
                        attached.add(sp)
                    elif op == 'det':
                        man.molecule_correspondence[sp].end = None
                        attached.discard(sp)
                    elif op == 'calc':
                        man.calculate_exchange_maps(scale_factor=0.5)
                        mapped |= attached
                    elif op == 'init':
                        # one species is given its OWN scale factor through its alignment (the documented way): from
                        # then on its map is the one just built, whatever the manager computed before
                        if sp in attached:
                            man.molecule_correspondence[sp].init_exchange_map(0.9)
                            mapped.add(sp)
                    elif op == 'cmp':
                        # the documented inspection aid: the two resolutions of every attached species written side by
                        # side to a scratch file (touches nothing the manager uses later)
                        for k, sp2 in enumerate(sorted(attached)):
                            man.molecule_correspondence[sp2].write_comparative_gro(os.path.join(d, f'cmp{i}_{k}.gro'))
                    elif op == 'frame':
                        # the manager is given ANOTHER frame of the same system (other title, box, coordinates, residue
                        # numbers) through its public attribute; attached molecules and maps stay.  From now on "the
                        # input" is that frame
                        state['frame'] ^= 1
                        f = state['frame']
                        if f not in worlds:
                            worlds[f] = World(HIST_SEQ, 'tric', seed, frame=f)
                        world = worlds[f]
                        man.system = System(MemFile(world.gro, f'frame{f}.gro'),
                                            *[MemFile(world.itp(s), s + '.itp') for s in world.present if s != 'W'])
                except Exception as e:
                    R.case(desc, nontrivial=False, cls='history', outcome=f'{op}:raised')
                    R.violation(f'history/{op}/exception', desc, repr(e)[:300])
                    return
                if op != 'extr':
                    continue
                n_extr += 1
                out = os.path.join(d, f'h{i}.gro')
                state['phase'] = 'extrap'
                err = None
                try:
                    man.extrapolate_system(out)
                except Exception as e:
                    err = e
                exists = os.path.exists(out)
                must_fail = not attached or bool(attached - mapped)
                last = i == len(events) - 1
                if must_fail:
                    if last:
                        R.case(desc, nontrivial=err is not None, cls='history/must-fail',
                               outcome=f'hist:{"raised" if err is not None else "no-error"}:'
                                       f'{"file" if exists else "no-file"}')
                    if err is None:
                        R.violation('history/extrapolate-before-maps-exist/no-error', desc,
                                    f'attached {sorted(attached)}, maps {sorted(mapped)}')
                        return
                    if exists:
                        R.violation('history/extrapolate-before-maps-exist/file-written', desc,
                                    f'{type(err).__name__} raised but the output path exists')
                        return
                    continue
                if err is not None or not exists:
                    if last:
                        R.case(desc, nontrivial=False, cls='history/must-write', outcome='hist:raised-or-no-file')
                    R.violation('history/extrapolate/failed-although-maps-exist', desc,
                                f'attached {sorted(attached)}, maps {sorted(mapped)}: {err!r}'[:300])
                    return
                state['phase'] = 'oracle'
                sig, det, nm = self._compare(world, {'sub': sorted(attached)}, out, man)
                if last:
                    R.case(desc, nontrivial=True, cls='history/must-write', outcome=f'hist:{"ok" if sig is None else "bad"}')
                    R.add('mapped_molecules_compared', nm)
                if sig:
                    R.violation('history/' + sig, desc, f'attached {sorted(attached)}: {det}')
                    return
        R.add('history_extrapolations_checked', n_extr)

    def _compare(self, world, desc, out, man):
        sub = desc['sub']
        try:
            got = read_gro(out)
        except Exception as e:
            return 'output/unreadable', repr(e)[:300], 0
        mapped = [m for m in world.mols if m['sp'] in sub]
        want_n = sum(len(SPECIES[m['sp']][2]) for m in mapped)
        # title / box / counts ------------------------------------------------
        if got['title'] != world.title:
            return 'output/title-differs', f"{got['title']!r} != {world.title!r}", len(mapped)
        gb = got['box'] + [0.0] * (9 - len(got['box']))
        wb = box_numbers(BOX[world.boxkind])
        if len(got['box']) not in (3, 9) or max(abs(a - b) for a, b in zip(gb, wb)) > TOL_BOX:
            return 'output/box-differs', f"{got['box']} != {wb}", len(mapped)
        if got['n'] != want_n or len(got['atoms']) != want_n:
            return 'output/atom-count', f"header {got['n']}, lines {len(got['atoms'])}, expected {want_n}", len(mapped)
        if got['extra']:
            return 'output/trailing-lines', repr(got['extra'][:3]), len(mapped)
        nums = [a[3] for a in got['atoms']]
        if nums != list(range(1, want_n + 1)):
            return 'output/atom-numbers-not-consecutive-from-1', str(nums[:24]), len(mapped)
        # molecule by molecule ------------------------------------------------
        at = 0
        for k, m in enumerate(mapped):
            sp = m['sp']
            tatoms = SPECIES[sp][2]
            block = got['atoms'][at:at + len(tatoms)]
            at += len(tatoms)
            where = f'output molecule {k} ({sp}, input residues {m["resids"]})'
            if [(b[1], b[2]) for b in block] != [(rn, an) for an, rn, _ in tatoms]:
                return ('output/molecule-order-or-identity', f'{where}: names {[(b[1], b[2]) for b in block]}',
                        len(mapped))
            tres = sorted(set(ri for _, _, ri in tatoms))
            got_res = [b[0] for b in block]
            if len(tres) == len(m['resids']):
                want_res = [m['resids'][tres.index(ri)] for _, _, ri in tatoms]
            elif len(m['resids']) == 1:
                want_res = m['resids'] * len(tatoms)
            else:       # several input residues, one output residue: any one of the input's numbers
                want_res = got_res if len(set(got_res)) == 1 and got_res[0] in m['resids'] else m['resids']
            if got_res != want_res:
                return ('output/residue-numbers', f'{where}: got {got_res}, expected {want_res}',
                        len(mapped))
            # coordinates: the species' own map applied to an independently built input molecule
            mol = start_template(sp).copy()
            mol.atoms_positions = m['pos'].copy()
            try:
                direct = man.molecule_correspondence[sp].exchange_map(mol).atoms_positions
            except Exception as e:
                return 'oracle/direct-map-call-failed', f'{where}: {e!r}'[:300], len(mapped)
            wpos = np.array([b[4] for b in block])
            nref = len(SPECIES[sp][0])
            if nref >= 3:
                dev = float(np.abs(wpos - direct).max())
                if not dev <= TOL_FMT:
                    return 'output/coordinates-differ-from-map', f'{where}: max deviation {dev:.6f} nm', len(mapped)
            else:
                a0 = m['pos'][0]
                dw, dd = wpos - a0, direct - a0
                dev = float(np.abs(np.linalg.norm(dw, axis=1) - np.linalg.norm(dd, axis=1)).max())
                if not dev <= TOL_INV:
                    return (f'output/ref{nref}/distance-to-anchor', f'{where}: deviation {dev:.6f} nm',
                            len(mapped))
                if nref == 2:
                    u = m['pos'][1] - a0
                    u = u / np.linalg.norm(u)
                    dev = float(np.abs(dw @ u - dd @ u).max())
                    if not dev <= TOL_INV:
                        return ('output/ref2/coordinate-along-axis', f'{where}: deviation {dev:.6f} nm',
                                len(mapped))
                    rw = np.linalg.norm(dw - np.outer(dw @ u, u), axis=1)
                    rd = np.linalg.norm(dd - np.outer(dd @ u, u), axis=1)
                    dev = float(np.abs(rw - rd).max())
                    if not dev <= TOL_INV:
                        return ('output/ref2/distance-from-axis', f'{where}: deviation {dev:.6f} nm',
                                len(mapped))
        return None, None, len(mapped)


CHECK = C05()
