"""C13 - writing then reading a .gro file returns the same system.

The real writer (GroFile(path, 'w') ... close()) writes a real file in a scratch directory
(text-mode tell/seek matter for the count back-fill), the real reader reads it back, and
an independent reference reader (mcx.ref.gro) parses the written bytes.  The input space is
the union of four complete sub-products (every member is executed, nothing is sampled):

  P1  residue name x atom name x residue number x atom number       (default everything else)
  P2  format x coordinate boundary triples x velocities x records   (thorough: also the full
      cube of the coordinate alphabet as single-record files)
  P3  format x velocities x title x box x count declared/back-filled
  P4  interaction product of class representatives, plus files of 299 / 300 records
"""
import contextlib
import os
from decimal import Decimal

import numpy as np

from mcx.build import Scratch, generic_points
from mcx.core import Check
from mcx.ref import gro as ref

NAMES = ('A', 'AB', 'ABCDE', '1', 'H12', 'O-', 'O.w', 'T.3P.', 'C{1}', '{}', "O5'", '%s')   # any non-blank characters
NUMBERS = (0, 1, 9, 99998, 99999, 100000, 100001, 199998, 1234567, 10 ** 7)
FORMATS = (None, 1, 2, 3, 4, 5, 6)          # None = no position format set (default 8.3)
TITLES = {
    't': 't',
    'spaces': 'in ner  words and trailing blanks  ',
    'lead': '  leading blanks',
    'long': ('0123456789' * 10),
    'blank': '   ',                  # nothing but blanks
    # characters that are line boundaries for str.splitlines but not for a text file (form feed, vertical tab, FS)
    'ctl': 'page 1\x0cpage 2\x0bsection\x1c.',
    'unicode': 'box at 25 \u00b0C, \u03b1-helix \u2013 caf\u00e9',     # non-ASCII: characters != bytes
}
BOXES = {
    'vec': [3.0, 4.5, 5.25],
    'diag': [[2.5, 0.0, 0.0], [0.0, 3.5, 0.0], [0.0, 0.0, 4.75]],
    'tric': [[5.1, 0.2, -0.3], [0.4, 6.2, 0.5], [-0.6, 0.7, 7.3]],
    'round': [[1.234565, 0.0, 0.0], [0.000005, 2.000015, 0.0], [-1.0000049, 3.1234551, 12.999995]],
    # components that need ten or more characters in %.5f (>= 1000 nm, <= -100 nm)
    'bigvec': [1200.5, 1300.25, 1500.125],
    'bigtric': [[2048.0, 0.0, 0.0], [-150.5, 2048.0, 0.0], [1024.25, -1000.125, 1024.5]],
}
# a flat sheared sheet: one box length is zero, so only three of the nine components are non-zero, one of them off the diagonal
BOXES['sheet'] = [[3.0, 0.0, 0.0], [1.5, 2.59808, 0.0], [0.0, 0.0, 0.0]]
# one non-zero off-diagonal component in each of the six positions (the 9-number box line stores all of them)
for _i in range(3):
    for _j in range(3):
        if _i != _j:
            _b = [[5.0, 0.0, 0.0], [0.0, 6.0, 0.0], [0.0, 0.0, 7.0]]
            _b[_i][_j] = 0.25 * (1 + _i) * (-1 if _j > _i else 1)
            BOXES[f'off{_i}{_j}'] = _b
P4_NAMES = (('A', 'H12'), ('ABCDE', 'ABCDE'))
P4_NUMBERS = (1, 99999, 1234567)
P4_COORDS = ('mid', 'ext', 'tie')
P4_TITLES = ('t', 'spaces')
P4_BOXES = ('vec', 'tric', 'round')
import locale
ENC = locale.getpreferredencoding(False)     # the library opens files with the default text encoding
if 'utf' not in ENC.lower():                  # the title must be representable in the file encoding
    TITLES.pop('unicode')
NX = 18                                      # size of the coordinate alphabet


def decimals_of(fmt):
    return 3 if fmt is None else fmt


def alphabet(d, vel):
    """Boundary values for a field of width d + 5 holding d (positions) or d + 1 (velocities)
    decimals; every value fits the field after rounding."""
    dd = d + 1 if vel else d
    ints = (d + 5) - dd - 1

    def u(k):
        return float(Decimal(k).scaleb(-dd))
    maxpos = Decimal('9' * ints + '.' + '9' * dd)
    maxneg = -Decimal('9' * (ints - 1) + '.' + '9' * dd)
    edge = Decimal('0.49').scaleb(-dd)
    out = [0.0, -0.0, u('0.5'), -u('0.5'), u('1.5'), u('2.5'), u('3.4999999'),
           1.23456789, -12.3456789, float(maxpos), float(maxneg),
           float(maxpos + edge), float(maxneg - edge),
           2.0 ** -(dd + 1), -3 * 2.0 ** -(dd + 1),       # exact binary rounding ties
           -u('0.7'), u('0.7'), -u('0.3')]                 # between half a unit and a unit: rounds away from zero
    assert len(out) == NX
    return out


def triple(X, i, s):
    t = [X[i % NX], X[(i + 1) % NX], X[(i + 2) % NX]]
    return t[s:] + t[:s]


def class_triple(kind, d, vel, j):
    X = alphabet(d, vel)
    if kind == 'mid':
        t = [X[7], X[8], X[0]]
    elif kind == 'ext':
        t = [X[9], X[10], X[1]]
    else:
        t = [X[2], X[13], X[3]]
    j %= 3
    return t[j:] + t[:j]


def generic(n, seed, tag, scale):
    return (generic_points(n, seed, tag=tag, min_sin=0.0) * scale).tolist()


def build_spec(case, seed):
    """case descriptor -> dict(title, box, fmt, declared, records, bulk)."""
    p = case['p']
    fmt = case.get('fmt')
    d = decimals_of(fmt)
    vel = bool(case.get('vel'))
    spec = {'title': None, 'box': BOXES['vec'], 'fmt': fmt, 'declared': False, 'bulk': False}
    if p == 'P1':
        rn, an, rm, am = case['rn'], case['an'], case['rm'], case['am']
        pos = generic(3, seed, 131, 10.0)
        spec['records'] = [(rm, rn, an, am) + tuple(pos[0]),
                           (am, an, rn, rm) + tuple(pos[1]),
                           (1, 'RES', 'X', 2) + tuple(pos[2])]
        spec['title'] = 'P1'
    elif p in ('P2', 'P2cube'):
        X, V = alphabet(d, False), alphabet(d, True)
        recs = []
        if p == 'P2':
            for j in range(case['nrec']):
                r = (j + 1, 'RES', 'A%d' % (j + 1), j + 1) + tuple(triple(X, case['i'] + j, case['s']))
                if vel:
                    r += tuple(triple(V, case['i'] + j, case['s']))
                recs.append(r)
        else:
            a, b, c = case['ijk']
            r = (1, 'RES', 'A1', 1, X[a], X[b], X[c])
            if vel:
                r += (V[c], V[a], V[b])
            recs.append(r)
        spec['records'] = recs
        spec['title'] = 'P2'
    elif p == 'P3':
        pos = generic(2, seed, 132, 10.0)
        vv = generic(2, seed, 133, 3.0)
        spec['records'] = [(j + 1, 'RES', 'A%d' % (j + 1), j + 1) + tuple(pos[j])
                           + (tuple(vv[j]) if vel else ()) for j in range(2)]
        spec['title'] = TITLES[case['title']]
        spec['box'] = BOXES[case['box']]
        spec['declared'] = bool(case['declared'])
        spec['bulk'] = True
        spec['boxform'] = case.get('boxform')
    elif p == 'P4':
        rn, an = P4_NAMES[case['names']]
        num = case['num']
        recs = []
        for j in range(case['nrec']):
            r = (num, rn, an, num) + tuple(class_triple(case['coord'], d, False, j))
            if vel:
                r += tuple(class_triple(case['coord'], d, True, j + 1))
            recs.append(r)
        spec['records'] = recs
        spec['title'] = TITLES[case['title']]
        spec['box'] = BOXES[case['box']]
        spec['declared'] = bool(case['declared'])
        spec['bulk'] = True
    elif p == 'size':
        X, V = alphabet(d, False), alphabet(d, True)
        recs = []
        for j in range(case['n']):
            r = (99990 + j // 3, NAMES[j % 6], NAMES[(j // 6) % 6], 99800 + j) \
                + tuple(triple(X, j, j % 3))
            if vel:
                r += tuple(triple(V, j + 4, (j + 1) % 3))
            recs.append(r)
        spec['records'] = recs
        spec['title'] = TITLES['spaces']
        spec['box'] = BOXES[case['box']]
        spec['declared'] = bool(case['declared'])
        if case['n'] >= 3:
            spec['bulk'] = 'batches'          # two writelines() calls, then the rest record by record
    else:
        raise AssertionError(p)
    return spec


def box_matrix(box):
    b = np.array(box, dtype=float)
    return np.diag(b) if b.shape == (3,) else b


def strip_nl(s):
    return s[:-1] if s.endswith('\n') else s


def roundtrip(path, spec):
    """Run the real writer and the real reader; returns an observation dict."""
    from gaddlemaps.parsers import GroFile
    obs = {'write_exc': None, 'read_exc': None, 'raw': None}
    g = GroFile(path, 'w')
    try:
        if spec['title'] is not None:
            g.comment = spec['title']
        box = spec['box']
        if spec.get('boxform') == 'farray':              # the same box as a Fortran-ordered array
            box = np.asfortranarray(np.array(box, dtype=float))
        elif spec.get('boxform') == 'tview':             # ... as a transposed view of a C-ordered array
            box = np.array(box, dtype=float).T.copy().T
        g.box_matrix = box
        if spec['fmt'] is not None:
            g.position_format = (spec['fmt'] + 5, spec['fmt'])
        if spec['declared']:
            g.natoms = len(spec['records'])
        if spec['bulk'] == 'batches':
            k = max(1, len(spec['records']) // 3)
            g.writelines(spec['records'][:k])
            g.writelines(spec['records'][k:2 * k])
            for r in spec['records'][2 * k:]:
                g.writeline(r)
        elif spec['bulk']:
            g.writelines(spec['records'])
        else:
            for r in spec['records']:
                g.writeline(r)
        g.close()
    except Exception as e:              # the library raised on an input the statement admits
        obs['write_exc'] = e
        with contextlib.suppress(Exception):
            g._file.close()
        return obs
    with open(path, 'rb') as fh:
        obs['raw'] = fh.read()
    try:
        g = GroFile(path)
        try:
            obs['records'] = [tuple(r) for r in g.readlines()]
            obs['natoms'] = g.natoms
            obs['comment'] = g.comment
            obs['box'] = np.array(g.box_matrix, dtype=float)
        finally:
            g.close()
    except Exception as e:
        obs['read_exc'] = e
    return obs


def judge(spec, obs):
    """The statement's oracle; returns a list of (signature, detail)."""
    out = []
    mode = 'default' if spec['fmt'] is None else 'explicit'
    if obs['write_exc'] is not None:
        e = obs['write_exc']
        return [(f'write/raised/{mode}-format', f'{type(e).__name__}: {e}'[:300])]
    recs_in = spec['records']
    n = len(recs_in)
    d = decimals_of(spec['fmt'])
    has_vel = len(recs_in[0]) == 10
    # -- every atom line of the written file has the same byte length ------------------------
    blines = obs['raw'].split(b'\n')
    lens = sorted({len(ln) for ln in blines[2:2 + n]})
    if len(lens) > 1:
        out.append(('file/atom-line-lengths-differ', lens))
    if obs['read_exc'] is not None:
        e = obs['read_exc']
        out.append((f'read/raised/{mode}-format', f'{type(e).__name__}: {e}'[:300]))
    else:
        got = obs['records']
        if len(got) != n or obs['natoms'] != n:
            out.append(('roundtrip/record-count', (n, len(got), obs['natoms'])))
        for a, b in zip(recs_in, got):
            if a[1] != b[1]:
                out.append(('roundtrip/residue-name', (a[1], b[1])))
            if a[2] != b[2]:
                out.append(('roundtrip/atom-name', (a[2], b[2])))
            for k, what in ((0, 'residue'), (3, 'atom')):
                if not (isinstance(b[k], int) and 0 <= b[k] <= 99999):
                    out.append((f'roundtrip/{what}-number-outside-five-columns', (a[k], b[k])))
                elif a[k] <= 99999 and a[k] != b[k]:
                    out.append((f'roundtrip/{what}-number-changed', (a[k], b[k])))
            if len(b) != len(a):
                out.append(('roundtrip/velocities-presence', (len(a), len(b))))
                continue
            for k in range(4, len(a)):
                dec = d if k < 7 else d + 1
                tol = 0.5 * 10.0 ** -dec * (1 + 1e-12) + 2 * np.spacing(max(abs(a[k]), abs(b[k])))
                if not abs(a[k] - b[k]) <= tol:
                    out.append(('roundtrip/coordinate' if k < 7 else 'roundtrip/velocity',
                                (k, repr(a[k]), repr(b[k]), dec)))
        want_box = box_matrix(spec['box'])
        if obs['box'].shape != (3, 3) or not np.all(np.abs(obs['box'] - want_box) <= 5e-6 * (1 + 1e-9) + 1e-14):
            out.append(('roundtrip/box', (want_box.tolist(), obs['box'].tolist())))
        if spec['title'] is not None and strip_nl(obs['comment']) != strip_nl(spec['title']):
            out.append(('roundtrip/title', (spec['title'], obs['comment'])))
    # -- independent parse of the written bytes ------------------------------------------------
    try:
        text = obs['raw'].decode(ENC)
        r = ref.ref_read_gro_full(text)
    except Exception as e:
        out.append(('ref/written-file-unparseable', f'{type(e).__name__}: {e}'[:300]))
        return out
    if r['fmt'] != (d + 5, d, has_vel):
        out.append(('ref/field-layout', (r['fmt'], (d + 5, d, has_vel))))
    if obs['read_exc'] is None:
        same = (r['records'] == obs['records'] and r['natoms'] == obs['natoms']
                and np.array_equal(np.array(r['box']), obs['box'])
                and r['title'] == strip_nl(obs['comment']))
        if not same:
            out.append(('ref/differs-from-library-read', 'reference parse of the written file '
                        'and GroFile read disagree'))
    return out


def reference_text(spec):
    d = decimals_of(spec['fmt'])
    return ref.ref_write_gro(strip_nl(spec['title']), spec['records'], box_matrix(spec['box']).tolist(),
                             d, None if spec['declared'] else 9)


class C13(Check):
    pid = 'C13'
    level = 'exploration'
    rule = ('case = one written file, described by (sub-product, names, numbers, position format, '
            'coordinate/velocity values, velocities on/off, title, box, count declared or back-filled, '
            'number of records); four complete sub-products P1..P4 + sizes 299/300 (thorough: + full cube '
            'of the coordinate alphabet); distinct by descriptor; non-trivial = the real writer produced a '
            'file with >= 1 atom record that the real reader was then asked to read')
    technique = ('exhaustive enumeration of four input sub-products on the real GroFile writer and reader over '
                 'real files; statement oracle + independent reference reader on the written bytes')
    level_text = ('every member of P1 (12x12 names x 10x10 numbers), P2 (7 formats x 54 boundary triples x velocities x '
                  '1..3 records), P3 (7 formats x velocities x 7 titles x 13 boxes (incl. one for each single off-diagonal component and a sheared box with one zero length) x count mode), P4 (interaction product, '
                  '3024 x 1..3 records) and 299/300-record files is written by the real writer to a real file and read '
                  'back, in both tiers; thorough adds the full 18^3 cube of the coordinate alphabet per format x velocities '
                  'and the sizes 9, 10, 99, 100; coverage of that finite product, not a proof over all reals / strings')
    level_note = ('trusted: the reference reader mcx/ref/gro.py (written from the format definition), Python float/Decimal; '
                  'not covered: values outside the alphabets (coordinates: 18 boundary values per format; generic values '
                  'from a seeded table), non-ASCII titles, sizes other than 1..3, 299, 300')
    assumptions = ['coordinates/velocities are constructed to fit the field width after rounding (statement: '
                   '"values that fit the field width")',
                   'fields are formatted independently, so the space is covered as a union of four complete '
                   'sub-products instead of one 16-million product',
                   'numbers above 99999 are only required to come back inside [0, 99999] on a line of unchanged length']
    _dir = None

    # -- scratch directory shared by the cases of one unit ---------------------------------------
    def run_unit(self, unit, tier, seed):
        with Scratch() as d:
            self._dir = d
            try:
                return super().run_unit(unit, tier, seed)
            finally:
                self._dir = None

    @contextlib.contextmanager
    def _path(self):
        if self._dir:
            yield os.path.join(self._dir, 'c13.gro')
        else:
            with Scratch() as d:
                yield os.path.join(d, 'c13.gro')

    # -- the space -------------------------------------------------------------------------------
    def units(self, tier, seed):
        thorough = tier == 'thorough'
        p2f = FORMATS
        nrecs = (1, 2, 3)
        sizes = (9, 10, 99, 100, 299, 300) if thorough else (299, 300)
        self.bounds = {
            'P1': {'names': list(NAMES), 'numbers': list(NUMBERS), 'records_per_file': 3},
            'P2': {'formats': [('default' if f is None else f) for f in p2f], 'coordinate_alphabet': NX,
                   'triples': NX * 3, 'records': [1, 2, 3], 'full_cube': thorough},
            'P3': {'formats': 7, 'titles': list(TITLES), 'boxes': list(BOXES), 'count': ['declared', 'back-filled']},
            'P4': {'names': 2, 'numbers': list(P4_NUMBERS), 'formats': 7, 'coords': list(P4_COORDS),
                   'titles': list(P4_TITLES), 'boxes': list(P4_BOXES), 'records': list(nrecs)},
            'sizes': list(sizes),
        }
        u = []
        for rn in NAMES:
            for an in NAMES:
                u.append({'p': 'P1', 'rn': rn, 'an': an})
        for f in FORMATS:
            for vel in (0, 1):
                if f in p2f:
                    u.append({'p': 'P2', 'fmt': f, 'vel': vel})
                u.append({'p': 'P3', 'fmt': f, 'vel': vel})
                for dec in (0, 1):
                    u.append({'p': 'P4', 'fmt': f, 'vel': vel, 'declared': dec, 'nrecs': list(nrecs)})
            u.append({'p': 'size', 'fmt': f, 'sizes': list(sizes)})
        for f in FORMATS:
            u.append({'p': 'seq', 'fmt': f})
        self.bounds['sequences_of_two_files'] = 'every ordered pair of different formats x velocities on/off for each file, same process'
        if thorough:
            for f in FORMATS:
                for vel in (0, 1):
                    for a0 in range(0, NX, 5):
                        u.append({'p': 'P2cube', 'fmt': f, 'vel': vel, 'a': [a0, min(a0 + 5, NX)]})
        return u

    def cases(self, unit, tier, seed):
        p = unit['p']
        if p == 'P1':
            for rm in NUMBERS:
                for am in NUMBERS:
                    yield {'p': 'P1', 'rn': unit['rn'], 'an': unit['an'], 'rm': rm, 'am': am}
        elif p == 'P2':
            for i in range(NX):
                for s in range(3):
                    for nrec in (1, 2, 3):
                        yield {'p': 'P2', 'fmt': unit['fmt'], 'vel': unit['vel'], 'i': i, 's': s, 'nrec': nrec}
        elif p == 'P2cube':
            for a in range(*unit['a']):
                for b in range(NX):
                    for c in range(NX):
                        yield {'p': 'P2cube', 'fmt': unit['fmt'], 'vel': unit['vel'], 'ijk': [a, b, c]}
        elif p == 'P3':
            for title in TITLES:
                for box in BOXES:
                    for dec in (0, 1):
                        yield {'p': 'P3', 'fmt': unit['fmt'], 'vel': unit['vel'], 'title': title,
                               'box': box, 'declared': dec}
                    if box != 'vec' and title == 't':
                        for form in ('farray', 'tview'):
                            yield {'p': 'P3', 'fmt': unit['fmt'], 'vel': unit['vel'], 'title': title,
                                   'box': box, 'declared': 0, 'boxform': form}
        elif p == 'P4':
            for names in range(len(P4_NAMES)):
                for num in P4_NUMBERS:
                    for coord in P4_COORDS:
                        for title in P4_TITLES:
                            for box in P4_BOXES:
                                for nrec in unit['nrecs']:
                                    yield {'p': 'P4', 'fmt': unit['fmt'], 'vel': unit['vel'],
                                           'declared': unit['declared'], 'names': names, 'num': num,
                                           'coord': coord, 'title': title, 'box': box, 'nrec': nrec}
        elif p == 'seq':
            for va in (0, 1):
                for fb in FORMATS:
                    if fb != unit['fmt']:
                        for vb in (va, 1 - va):
                            yield {'p': 'seq', 'a': [unit['fmt'], va], 'b': [fb, vb]}
        elif p == 'size':
            for n in unit['sizes']:
                for vel in (0, 1):
                    for dec in (0, 1):
                        yield {'p': 'size', 'fmt': unit['fmt'], 'vel': vel, 'declared': dec, 'n': n,
                               'box': 'tric' if dec else 'vec'}

    # -- one case --------------------------------------------------------------------------------
    def check_case(self, case, R, seed):
        if case['p'] == 'seq':
            # two files written one after the other by the same process, with different position formats:
            # nothing of the first file's format may leak into the second
            for which, (fmt, vel) in enumerate((case['a'], case['b'])):
                sub = {'p': 'P3', 'fmt': fmt, 'vel': vel, 'title': 'spaces', 'box': 'tric', 'declared': which}
                spec = build_spec(sub, seed)
                with self._path() as path:
                    obs = roundtrip(path, spec)
                verdicts = judge(spec, obs)
                seen = set()
                for sig, det in verdicts:
                    if sig not in seen:
                        seen.add(sig)
                        R.violation('sequence-of-files/' + sig, case, ('first' if which == 0 else 'second') + ' file: ' + str(det))
                R.case(dict(case, file=which), nontrivial=obs['raw'] is not None,
                       outcome=verdicts[0][0] if verdicts else 'round-trip ok', cls='seq/' + ('vel' if vel else 'novel'))
            return
        spec = build_spec(case, seed)
        with self._path() as path:
            obs = roundtrip(path, spec)
        verdicts = judge(spec, obs)
        f = 'default' if case.get('fmt') is None else 'd%d' % case['fmt']
        cls = '%s/%s/%s' % (case['p'], f, 'vel' if case.get('vel') else 'novel')
        seen = set()
        for sig, det in verdicts:
            if sig not in seen:
                seen.add(sig)
                R.violation(sig, case, det)
        R.case(case, nontrivial=obs['raw'] is not None and len(spec['records']) >= 1,
               outcome=verdicts[0][0] if verdicts else 'round-trip ok' + (
                   '/numbers-wrapped' if any(r[0] > 99999 or r[3] > 99999 for r in spec['records']) else '') + (
                   '/velocities' if any(len(r) > 7 for r in spec['records']) else ''), cls=cls)
        R.add('records_written', len(spec['records']))
        if obs['raw'] is not None:
            # informational only: byte-exact agreement with the reference formatter (alignment,
            # count column) is more than the statement asks and is never a violation
            try:
                same = obs['raw'].decode(ENC) == reference_text(spec)
            except Exception:
                same = False
            R.add('text_equals_reference_formatter' if same else 'text_differs_from_reference_formatter')


CHECK = C13()
