"""C19 - the periodic distance is the minimum-image distance.

Enumerated completely (no sampling): boxes (orthorhombic with edges from
{0.5, 1, 2.5, 20} nm, triclinic of moderate skew) x point pairs from a tie-free table
of fractional coordinates (plus a far-away image of the second point) x EVERY lattice
shift in [-3, 3]^3 applied to the first or to the second argument x argument kinds
(point, 1-atom residue, 3-atom residue, built from real AtomGro records) x both call
forms (box; inverse box with inv=True), each evaluated in both directions.
"""
import itertools

import numpy as np

from mcx.core import Check

TOL = 1e-9
EDGES = (0.5, 1.0, 2.5, 20.0)
QUICK_ORTHO = ([list(e) for e in itertools.product((0.5, 2.5), repeat=3)] +
               [[1.0, 1.0, 1.0], [20.0, 20.0, 20.0], [0.5, 1.0, 20.0], [20.0, 0.5, 1.0],
                [1.0, 20.0, 0.5], [20.0, 1.0, 2.5], [2.5, 20.0, 1.0], [1.0, 2.5, 20.0], [4.0, 1.0, 6.0]])
TRICLINIC = [
    [[2.0, 0.0, 0.0], [0.5, 2.0, 0.0], [0.3, -0.4, 2.5]],            # lower triangular (GROMACS form)
    [[3.0, 0.0, 0.0], [0.0, 3.0, 0.0], [1.5, 1.5, 2.1213]],          # dodecahedron-like
    [[0.5, 0.0, 0.0], [0.1, 0.6, 0.0], [-0.15, 0.2, 20.0]],          # very anisotropic
    [[2.0, 0.3, -0.2], [0.4, 2.5, 0.5], [-0.3, 0.2, 3.0]],           # general non-singular matrix
    [[4.0, 0.0, 0.0], [1.0, 5.0, 0.0], [-1.0, 2.0, 6.0]],            # integer-valued
]
FAR = (11, -13, 17)
NPTS = 5
KINDS_QUICK = (('1', 'pt'), ('3', '3'))
KINDS_ALL = (('1', 'pt'), ('3', 'pt'), ('1', '1'), ('1', '3'), ('3', '3'))
D1 = np.array([0.11, 0.02, -0.03])
D2 = np.array([-0.05, 0.07, 0.01])

_CACHE = {}


def frac_table(seed):
    """NPTS fractional points in [0.02, 0.98)^3; every pairwise difference has each component
    at least 0.03 away from 0 and from +-0.5 (no half-box ties: the margin in nm is
    >= 0.03 * 0.5 = 0.015 >> 1e-6)."""
    key = ('frac', seed)
    if key not in _CACHE:
        rng = np.random.default_rng([int(seed), 1931])
        pts = []
        tries = 0
        while len(pts) < NPTS:
            tries += 1
            if tries > 100000:
                raise RuntimeError('frac_table: cannot satisfy the tie margin')
            p = rng.uniform(0.02, 0.98, 3)
            ok = True
            for q in pts:
                dl = np.abs(p - q)
                if np.any(dl < 0.03) or np.any(np.abs(dl - 0.5) < 0.03):
                    ok = False
                    break
            if ok:
                pts.append(p)
        _CACHE[key] = np.array(pts)
    return _CACHE[key].copy()


def boxes(tier):
    if tier == 'thorough':
        ortho = [list(e) for e in itertools.product(EDGES, repeat=3)] + [[4.0, 1.0, 6.0]]
    else:
        ortho = QUICK_ORTHO
    return ([{'kind': 'ortho', 'm': np.diag(e).tolist()} for e in ortho] +
            [{'kind': 'tric', 'm': m} for m in TRICLINIC])


def pair_list(tier):
    """(i, j, far): unordered pairs (both directions are evaluated in every case), pairs with the
    second point replaced by a far-away periodic image; thorough adds the coincident pairs."""
    npts = NPTS if tier == 'thorough' else NPTS - 1
    out = [[i, j, 0] for i in range(npts) for j in range(i + 1, npts)]
    out += [[i, (i + 1) % npts, 1] for i in range(npts)]
    if tier == 'thorough':
        out += [[i, i, 0] for i in range(npts)]
    # second point = first point + a special fractional separation (see SPECIAL)
    out += [[0, 'near', 0], [1, 'near', 1], [0, 'half', 0], [2, 'half', 1], [1, 'halfneg', 0]]
    return out


# special separations in box fractions: 'near' = a few 1e-6 of a box edge from the first point (NOT an image of it: the
# distance is 1e-6 .. 1e-4 nm); 'half' / 'halfneg' = 6e-6 box fractions short of half a box along the first box vector
# (>= 3e-6 nm from the tie on a 0.5 nm edge, so one image is the nearer one by more than the tolerance)
SPECIAL = {'near': np.array([4e-6, -3e-6, 2e-6]), 'half': np.array([0.5 - 6e-6, 0.213, -0.317]),
           'halfneg': np.array([-0.5 + 6e-6, -0.171, 0.283])}


def min_image_reference(sep, edges):
    """Orthorhombic box: minimum over periodic images of the separation, plain loops.
    sep is the separation of two points inside the box (|component| < edge), so the
    minimising image has |n| <= 1 per axis; images in [-2, 2]^3 are scanned."""
    sep = [float(x) for x in sep]
    edges = [float(x) for x in edges]
    best = None
    for nx in range(-2, 3):
        for ny in range(-2, 3):
            for nz in range(-2, 3):
                x = sep[0] + nx * edges[0]
                y = sep[1] + ny * edges[1]
                z = sep[2] + nz * edges[2]
                d = (x * x + y * y + z * z) ** 0.5
                if best is None or d < best:
                    best = d
    return best


def make_arg(kind, centre, resid):
    """Real Residue (1 or 3 AtomGro records whose geometric centre is `centre`) or a plain point."""
    from gaddlemaps.components import AtomGro, Residue
    if kind == 'pt':
        return np.array(centre, float)
    if kind == '1':
        c = centre
        return Residue([AtomGro([resid, 'RES', 'A1', 1, float(c[0]), float(c[1]), float(c[2])])])
    atoms = []
    for n, dlt in enumerate((D1, D2, -D1 - D2)):
        c = centre + dlt
        atoms.append(AtomGro([resid, 'RES', f'A{n + 1}', n + 1, float(c[0]), float(c[1]), float(c[2])]))
    return Residue(atoms)


class C19(Check):
    pid = 'C19'
    level = 'exploration'
    rule = ('case = (box, point pair, far flag, argument kinds, lattice shift n in [-3,3]^3, shifted argument, '
            'call form); each case evaluates distance_to in both directions; distinct by descriptor; '
            'non-trivial = the two points are different (non-zero periodic distance) and the shift is not '
            'zero or the plain separation already exceeds half a box edge')
    technique = ('exhaustive enumeration of boxes x point pairs x all lattice shifts x argument kinds x call forms '
                 'on the real Residue.distance_to (real AtomGro records), minimum-image reference by plain loops')
    level_text = ('20 (quick) / 68 (thorough) boxes (orthorhombic edges from {0.5, 1, 2.5, 20} nm, 4 triclinic), '
                  '15 / 25 point pairs (4 / 5 points, plus pairs 1e-6 box fractions apart and 6e-6 short of half a box) inside the box and far outside, all 343 lattice shifts in [-3,3]^3 on either '
                  'argument, 2 / 5 argument-kind combinations, both call forms, both directions, are executed on '
                  'the real code; a coverage statement over that finite space, not a proof for all reals')
    level_note = ('trusted: numpy arithmetic, the plain-loop minimum-image reference (orthorhombic only; the set of '
                  'periodic images is invariant under lattice shifts, so the reference of a shifted pair is the '
                  'reference of the unshifted pair); for triclinic boxes only symmetry, shift invariance and '
                  'equality of the two call forms are claimed and checked; separations at a half-box tie and '
                  'singular boxes are excluded by the statement')
    assumptions = ['points from a table of 5 fractional coordinates selected by VERIF_SEED; every pairwise '
                   'difference is >= 0.03 box lengths away from 0 and from half a box on every axis, so no '
                   'separation is within 1e-6 nm of an exact half box (two tied images)',
                   'the position of a residue is its geometric centre; 3-atom residues are built with atoms at '
                   'centre + d1, centre + d2, centre - d1 - d2',
                   'box matrices hold one box vector per row (the convention of the .gro reader); a lattice '
                   'shift is n @ box with integer n', 'tolerance 1e-9 nm (design C19)']

    # ------------------------------------------------------------------
    def units(self, tier, seed):
        bx = boxes(tier)
        pl = pair_list(tier)
        kinds = KINDS_ALL if tier == 'thorough' else KINDS_QUICK
        self.bounds = {'boxes': len(bx), 'orthorhombic': sum(b['kind'] == 'ortho' for b in bx),
                       'triclinic': len(TRICLINIC), 'edges_nm': list(EDGES),
                       'points': NPTS if tier == 'thorough' else NPTS - 1,
                       'point_pairs': len(pl), 'far_image_shift': list(FAR), 'shift_range': [-3, 3],
                       'shifts': 343, 'kind_combinations': ['-'.join(k) for k in kinds],
                       'call_forms': ['box', 'inverse box, inv=True'], 'directions': 2}
        u = [{'box': b, 'pair': p} for b in bx for p in pl]
        # two mutually reciprocal boxes used one after the other by the same process (the inverse of the first
        # box is itself passed as a box): the numbers of one are the inverse-box numbers of the other
        recip = [{'kind': 'ortho', 'm': np.diag(e).tolist()} for e in ([2.0, 1.25, 0.5], [0.5, 0.5, 4.0])] + \
            [{'kind': 'tric', 'm': TRICLINIC[0]}]
        self.bounds['reciprocal_box_pairs'] = len(recip)
        u += [{'box': b, 'pair': p, 'recip': 1} for b in recip for p in pl[:6]]
        return u

    def cases(self, unit, tier, seed):
        kinds = KINDS_ALL if tier == 'thorough' else KINDS_QUICK
        for ka, kb in kinds:
            c = {'box': unit['box'], 'pair': unit['pair'], 'ka': ka, 'kb': kb}
            if unit.get('recip'):
                c['recip'] = 1
            yield c

    # ------------------------------------------------------------------
    def check_case(self, case, R, seed):
        if case.get('recip') == 1:
            first = dict(case, recip=2)
            self.check_case(first, R, seed)
            inv = np.linalg.inv(np.array(case['box']['m'], float))
            self.check_case(dict(case, recip=3, box={'kind': case['box']['kind'], 'm': inv.tolist()}), R, seed)
            return
        box = np.array(case['box']['m'], float)
        ortho = case['box']['kind'] == 'ortho'
        inv_box = np.linalg.inv(box)
        i, j, far = case['pair']
        ka, kb = case['ka'], case['kb']
        frac = frac_table(seed)
        a0 = frac[i] @ box
        b_in = (frac[i] + SPECIAL[j]) @ box if isinstance(j, str) else frac[j] @ box
        b0 = b_in + np.array(FAR, float) @ box if far else b_in
        edges = np.diag(box)
        ref = min_image_reference(b_in - a0, edges) if ortho else None
        bname = ('ortho' if ortho else 'tric')
        cls = f"{bname}/{ka}-{kb}/{'far' if far else 'in'}" + ('/same-point' if i == j else '')

        def objs(x, kx, resid):
            """(x as self: a real residue, x as argument of kind kx)"""
            if kx == 'pt':
                return make_arg('1', x, resid), make_arg('pt', x, resid)
            r = make_arg(kx, x, resid)
            return r, r

        def both(sa, aa, sb, ab, form):
            """a -> b and b -> a"""
            if form == 'box':
                return (float(sa.distance_to(ab, box_vects=box.copy())),
                        float(sb.distance_to(aa, box_vects=box.copy())))
            return (float(sa.distance_to(ab, box_vects=inv_box.copy(), inv=True)),
                    float(sb.distance_to(aa, box_vects=inv_box.copy(), inv=True)))

        sa0, aa0 = objs(a0, ka, 7)
        sb0, ab0 = objs(b0, kb, 8)
        zero = dict(case, n=[0, 0, 0], who='a', form='box')
        # base value (unshifted, box form): the anchor for shift invariance
        try:
            base = both(sa0, aa0, sb0, ab0, 'box')[0]
        except Exception as exc:
            R.case(zero, outcome='exception', cls=cls)
            R.violation(f'distance_to/{bname}/exception', zero, repr(exc))
            return
        shifts = [case['n']] if 'n' in case else itertools.product(range(-3, 4), repeat=3)
        whos = [case['who']] if 'who' in case else ('a', 'b')
        forms = [case['form']] if 'form' in case else ('box', 'inv')
        half = bool(np.any(np.abs((b_in - a0) @ inv_box) > 0.5))
        integer_box = bool(np.all(box == np.round(box)))
        for n in shifts:
            n = list(n)
            sh = np.array(n, float) @ box
            for who in whos:
                if who == 'a':
                    a, b = a0 + sh, b0
                    (sa, aa), (sb, ab) = objs(a, ka, 7), (sb0, ab0)
                else:
                    a, b = a0, b0 + sh
                    (sa, aa), (sb, ab) = (sa0, aa0), objs(b, kb, 8)
                plain = float(np.linalg.norm(b - a))
                res = {}
                for form in ('box', 'inv'):
                    try:
                        res[form] = both(sa, aa, sb, ab, form)
                    except Exception as exc:
                        res[form] = exc
                # an integer-valued box handed over as an integer array / as nested lists of Python ints is the same box
                if integer_box and not isinstance(res['box'], Exception) and (not any(n) or n == [1, -2, 3]):
                    d = dict(case, n=n, who=who, form='box')
                    for kind, bx in (('int-array', box.astype(np.int64)),
                                     ('int-lists', [[int(x) for x in row] for row in box])):
                        try:
                            v = float(sa.distance_to(ab, box_vects=bx))
                        except Exception as exc:
                            R.violation(f'distance_to/{bname}/exception', d, f'{kind}: {exc!r}')
                            continue
                        R.case(dict(d, boxform=kind), nontrivial=True, cls=cls + '/integer-typed-box')
                        if abs(v - res['box'][0]) > TOL:
                            R.violation(f'distance_to/{bname}/integer-typed-box-differs', d,
                                        f"{kind}: {v!r} vs float box {res['box'][0]!r}")
                # the same box / flag in other legal forms; the same residue object edited atom by atom
                if not isinstance(res['box'], Exception) and not isinstance(res['inv'], Exception) \
                        and (not any(n) or n == [1, -2, 3]):
                    d = dict(case, n=n, who=who, form='box')
                    alt = []
                    bf, bt = np.asfortranarray(box.copy()), box.T.copy().T
                    fi = np.asfortranarray(inv_box.copy())
                    alt.append(('box-fortran-ordered', lambda: sa.distance_to(ab, box_vects=bf), res['box'][0]))
                    alt.append(('box-fortran-ordered-again', lambda: sa.distance_to(ab, box_vects=bf), res['box'][0]))
                    alt.append(('box-transposed-view', lambda: sa.distance_to(ab, box_vects=bt), res['box'][0]))
                    alt.append(('inverse-fortran-ordered', lambda: sa.distance_to(ab, box_vects=fi, inv=True), res['inv'][0]))
                    alt.append(('inverse-fortran-ordered-again', lambda: sa.distance_to(ab, box_vects=fi, inv=True), res['inv'][0]))
                    alt.append(('inv-flag-numpy-bool', lambda: sa.distance_to(ab, box_vects=inv_box.copy(), inv=np.bool_(True)), res['inv'][0]))
                    alt.append(('inv-flag-one', lambda: sa.distance_to(ab, box_vects=inv_box.copy(), inv=1), res['inv'][0]))
                    alt.append(('inv-flag-zero', lambda: sa.distance_to(ab, box_vects=box.copy(), inv=0), res['box'][0]))
                    alt.append(('box-and-flag-positional', lambda: sa.distance_to(ab, inv_box.copy(), True), res['inv'][0]))
                    # ONE box array object re-used by the caller: filled with another box (10 % larger) in place, then
                    # with this box again
                    buf = box * 1.1
                    big = float(sa.distance_to(ab, box_vects=(box * 1.1).copy()))
                    alt.append(('box-buffer-first-use', lambda: sa.distance_to(ab, box_vects=buf), big))

                    def refill():
                        buf[:] = box
                        return sa.distance_to(ab, box_vects=buf)
                    alt.append(('box-buffer-refilled-in-place', refill, res['box'][0]))
                    ibuf = np.linalg.inv(box * 1.1)
                    alt.append(('inverse-buffer-first-use', lambda: sa.distance_to(ab, box_vects=ibuf, inv=True), big))

                    def irefill():
                        ibuf[:] = inv_box
                        return sa.distance_to(ab, box_vects=ibuf, inv=True)
                    alt.append(('inverse-buffer-refilled-in-place', irefill, res['inv'][0]))
                    for kind, fn, want in alt:
                        try:
                            v = float(fn())
                        except Exception as exc:
                            R.violation(f'distance_to/{bname}/exception', d, f'{kind}: {exc!r}')
                            continue
                        R.case(dict(d, argform=kind), nontrivial=True, cls=cls + '/argument-forms')
                        if not abs(v - want) <= TOL:
                            R.violation(f'distance_to/{bname}/same-arguments-in-another-form-differ', d,
                                        f'{kind}: {v!r} vs {want!r}')
                    # a residue whose atoms were created from WHOLE-NUMBER coordinates (integer-typed arrays), then
                    # moved by the lattice vector with Residue.move: same periodic distance as before the move
                    try:
                        from gaddlemaps.components import AtomGro, Residue
                        ci = [int(round(x)) for x in a]
                        ri = Residue([AtomGro([7, 'RES', 'A1', 1, ci[0], ci[1], ci[2]])])
                        d0 = float(ri.distance_to(ab, box_vects=box.copy()))
                        ri.move(np.array([2.0, -1.0, 3.0]) @ box)
                        d1 = float(ri.distance_to(ab, box_vects=box.copy()))
                    except Exception as exc:
                        R.violation(f'distance_to/{bname}/exception', d, f'integer-typed residue moved by a lattice vector: {exc!r}')
                    else:
                        R.case(dict(d, argform='integer-typed-residue-moved'), nontrivial=True, cls=cls + '/argument-forms')
                        if not abs(d1 - d0) <= TOL:
                            R.violation(f'distance_to/{bname}/changes-under-lattice-shift', d,
                                        f'residue built from whole-number coordinates, moved by (2,-1,3) boxes: {d0!r} -> {d1!r}')
                    if ka != 'pt' or True:
                        # a residue that has answered a query is then moved by assigning its atoms' positions one by one
                        w = np.array([0.3, -0.2, 0.1])
                        try:
                            for at in sa:
                                at.position = at.position + w
                            moved = float(sa.distance_to(ab, box_vects=box.copy()))
                            fresh = float(objs(a + w, ka, 7)[0].distance_to(ab, box_vects=box.copy()))
                            for at in sa:
                                at.position = at.position - w
                        except Exception as exc:
                            R.violation(f'distance_to/{bname}/exception', d, f'atoms moved one by one: {exc!r}')
                        else:
                            R.case(dict(d, argform='atoms-moved-one-by-one'), nontrivial=True, cls=cls + '/argument-forms')
                            if not abs(moved - fresh) <= TOL:
                                R.violation(f'distance_to/{bname}/residue-moved-atom-by-atom-differs-from-a-fresh-one', d,
                                            f'{moved!r} vs {fresh!r}')
                for form in forms:
                    d = dict(case, n=n, who=who, form=form)
                    if isinstance(res[form], Exception):
                        R.case(d, outcome='exception', cls=cls)
                        R.violation(f'distance_to/{bname}/exception', d, repr(res[form]))
                        continue
                    dab, dba = res[form]
                    sig = None
                    if not (np.isfinite(dab) and np.isfinite(dba)):
                        sig, det = 'non-finite', (dab, dba)
                    elif form == 'inv':
                        # the inverse form only has to agree with the box form (which carries
                        # the other oracles), in both directions
                        if isinstance(res['box'], Exception):
                            pass
                        elif abs(dab - res['box'][0]) > TOL or abs(dba - res['box'][1]) > TOL:
                            sig, det = 'inverse-form-differs', f"inv form={res['inv']!r} box form={res['box']!r}"
                    elif ortho and abs(dab - ref) > TOL:
                        sig, det = 'not-minimum-image', f'periodic={dab!r} minimum over images={ref!r} plain={plain!r}'
                    elif ortho and dab > plain + TOL:
                        sig, det = 'exceeds-plain-distance', f'periodic={dab!r} plain={plain!r}'
                    elif abs(dab - dba) > TOL:
                        sig, det = 'not-symmetric', f'd(a,b)={dab!r} d(b,a)={dba!r}'
                    elif abs(dab - base) > TOL:
                        sig, det = 'changes-under-lattice-shift', f'shifted={dab!r} unshifted={base!r}'
                    R.case(d, nontrivial=(i != j) and (any(n) or half), cls=cls,
                           outcome=('wrapped' if dab < plain - TOL else 'direct'))
                    if sig:
                        R.violation(f'distance_to/{bname}/{sig}', d, det)
                    R.add('max_abs_dev_e18', int(min(abs(dab - base), 1.0) * 1e18))


CHECK = C19()
