"""C06 - alignment moves molecules only by structure-preserving transformations.

Stateless exploration of the real Alignment.align_molecules -> minimize_molecules ->
Monte-Carlo loop under an owned random stream (horizon H iterations, deviation bound D)
over a complete product of small molecule pairs, roles, restraint lists, deformation
type subsets and hydrogen settings.  Every proposed configuration (not only the final
one) is observed by wrapping the overlap calculator the loop builds.
"""
import itertools

import numpy as np

from mcx import enum as en
from mcx.build import generic_points, molecule
from mcx.core import Check
from mcx.explore import explore, roots, Ctx, Horizon
from mcx.ref.mc import McScript, same_shape
from mcx.seams import owned_random, patched, quiet_stdout

# "B" molecules: (atom names, edges); hydrogens are named H*
BMOLS = {
    'chain5h': (['C1', 'H2', 'C3', 'H4', 'C5'], en.chain(5)),
    'branch6': (['C1', 'C2', 'N3', 'O4', 'C5', 'C6'], [(0, 1), (1, 2), (1, 3), (3, 4), (3, 5)]),
    'heavy4': (['C1', 'N2', 'O3', 'C4'], en.chain(4)),
}
CYCLIC = {'triangle': (3, [(0, 1), (0, 2), (1, 2)]), 'square': (4, [(0, 1), (0, 3), (1, 2), (2, 3)])}
RESTR = {'none': None, 'r00': [(0, 0)], 'cross': [(0, 1), (1, 0)], 'dup': [(0, 0), (0, 0)], 'r01': [(0, 1)]}


QUICK_TREES4 = ([(0, 1), (1, 2), (2, 3)], [(0, 1), (0, 2), (2, 3)], [(0, 1), (0, 2), (0, 3)],
                [(0, 3), (1, 3), (2, 3)])


def a_molecules(thorough=True):
    out = []
    for n in range(1, 5):
        for t in en.all_trees(n):
            if n == 4 and not thorough and [tuple(e) for e in t] not in [list(q) for q in QUICK_TREES4]:
                continue
            out.append((f'tree{n}', n, t, True))
    for name, (n, e) in CYCLIC.items():
        out.append((name, n, e, False))
    # legal but degenerate geometry: the three neighbours of atom 0 are exactly collinear, so a single-atom move of
    # atom 0 has no defined direction (the library proposes a non-finite configuration, which must never be kept)
    out.append(('star4deg', 4, [(0, 1), (0, 2), (0, 3)], True))
    # a chain whose last two atoms sit on the same point (a virtual site on top of its parent): the bond 1-2 has length
    # zero and keeps it; a move of atom 2 along that bond has no direction (a non-finite proposal, never kept)
    out.append(('chain3zero', 3, [(0, 1), (1, 2)], True))
    return out


FAR_SHIFT = np.array([6000.0, 7500.0, 9000.0])
DEG_POS = np.array([[0.3, 0.125, 0.25], [0.0, 0.0, 0.0], [0.25, 0.0, 0.0], [0.5, 0.0, 0.0]])


def snapshot(mol):
    vel = mol.atoms_velocities
    return (mol.atoms_positions.copy(), None if vel is None else vel.copy(), list(mol.atoms_ids),
            list(mol.resids), list(mol.resnames), [a.name for a in mol], len(mol),
            [sorted(a.bonds) for a in mol.molecule_top], [a.resid for a in mol.molecule_top])


def same_snapshot(a, b):
    if not np.array_equal(a[0], b[0]):
        return 'positions'
    if (a[1] is None) != (b[1] is None) or (a[1] is not None and not np.array_equal(a[1], b[1])):
        return 'velocities'
    for i, what in ((2, 'atom ids'), (3, 'resids'), (4, 'resnames'), (5, 'atom names'), (6, 'length'),
                    (7, 'bonds'), (8, 'topology resids')):
        if a[i] != b[i]:
            return what
    return None


class C06(Check):
    pid = 'C06'
    level = 'model_checking'
    rule = ('execution = (molecule A from all labelled trees on 1..4 atoms + 2 cyclic graphs, molecule B from 3 '
            'templates, which one is start, restraint list, deformation-type subset or default, ignore_hydrogens, '
            'STEPS_FACTOR, choice vector of the owned random stream within H/D); distinct by descriptor+vector; '
            'non-trivial = the Monte-Carlo loop ran at least one iteration')
    technique = ('stateless choice-point exploration (prefix replay, deviation-bounded) of the real '
                 'Alignment.align_molecules and Monte-Carlo loop under an owned random source; oracle on every '
                 'proposed and every final configuration')
    level_text = ('all random streams within the stated horizon and deviation bound over a complete product of small '
                  'molecule pairs/roles/options are executed on the real alignment; 40-atom molecules along '
                  'low-deviation paths; plus bit-identical replay of choice vectors and of real seeds')
    level_note = ('trusted: numpy, the seam (np.random entry points, gaddlemaps._backend.Chi2Calculator wrapper), '
                  'the builders. Not covered: draw values outside the menus, streams beyond H/D, molecules beyond the '
                  'alphabet, the compiled backend')
    assumptions = ['draw menus as in C09 (mcx/ref/mc.py)', 'generic coordinates from a conditioned table (VERIF_SEED)']

    def units(self, tier, seed):
        thorough = tier == 'thorough'
        self.bounds = {'horizon': 8 if thorough else 6, 'deviation_bound': 2 if thorough else 1,
                       'steps_factor': [1, 2] if thorough else [1], 'large': '40 vs 41 atoms, D<=1',
                       'realign_history': 'same Alignment, mobile molecule replaced by a 20 % larger rotated conformation, aligned '
                                          'again (types default / [2] / [0,1], no restraints)',
                       'degenerate_mobile_geometry': 'star of 4 atoms whose three neighbours are exactly collinear'}
        u = []
        self.bounds['A_molecules'] = len(a_molecules(thorough))
        for aname, n, edges, acyc in a_molecules(thorough):
            for b in BMOLS:
                for start in ('A', 'B'):
                    u.append({'k': 'small', 'aname': aname, 'n': n, 'edges': edges, 'acyc': acyc,
                              'b': b, 'start': start})
        for fam in ('chain', 'caterpillar'):
            for start in ('A', 'B'):
                u.append({'k': 'large', 'fam': fam, 'start': start})
        u.append({'k': 'multires'})
        # first in the list: it is then executed by a worker that has run nothing before (what an earlier alignment
        # leaves behind in the process is exactly what this unit looks for)
        u.insert(0, {'k': 'seeds'})
        return u

    def cases(self, unit, tier, seed):
        thorough = tier == 'thorough'
        H, D = self.bounds['horizon'], self.bounds['deviation_bound']
        if unit['k'] == 'small':
            n = unit['n']
            nb = len(BMOLS[unit['b']][0])
            ns, ne = (n, nb) if unit['start'] == 'A' else (nb, n)
            n_mobile = ne if ns >= ne else ns
            kinds = [0, 1] + ([2] if n_mobile >= 2 else [])
            subsets = [None] + [list(s) for r in range(1, len(kinds) + 1) for s in itertools.combinations(kinds, r)]
            for types in subsets:
                rkeys = ['none', 'r00', 'cross', 'dup', 'r01'] if types is None else ['none', 'r00']
                for rk in rkeys:
                    if rk in ('cross', 'r01') and min(ns, ne) < 2:
                        continue
                    for ign in (True, False):
                        for sf in self.bounds['steps_factor']:
                            yield dict(unit, types=types, restr=rk, ign=ign, sf=sf, H=H, D=D)
                    if rk == 'none' and types in (None, [2], [0, 1]):
                        yield dict(unit, types=types, restr=rk, ign=True, sf=1, H=H, D=D, reset=1)
                    if rk == 'none' and types in (None, [2]):
                        yield dict(unit, types=types, restr=rk, ign=False, sf=1, H=H, D=D, far=1)
                    if rk == 'none' and types in (None, [0, 1]) and unit['b'] == 'heavy4' and n >= 2:
                        # start and end are two conformations of ONE molecule type (equal by value, equal size): the
                        # start is the fixed one
                        yield dict(unit, types=types, restr=rk, ign=False, sf=1, H=H, D=D, same=1)
                    if types is None and rk in ('none', 'r00') and n < nb:
                        # the SMALLER molecule consists of hydrogens only (H2, beads called H1, H2, ...): legal, only the
                        # larger one needs an atom that takes part in the fit
                        for ign in (True, False):
                            yield dict(unit, types=types, restr=rk, ign=ign, sf=1, H=H, D=D, ahyd=1)
        elif unit['k'] == 'large':
            for types in (None, [0, 1]):
                for ign in (True, False):
                    yield dict(unit, types=types, restr='r00', ign=ign, sf=1, H=70, D=1,
                               dev_at=[0, 1, 20, 39])
        elif unit['k'] == 'multires':
            for start in ('A', 'B'):
                for ign in (True, False):
                    yield dict(unit, start=start, types=None, restr='none', ign=ign, sf=1, H=H, D=D)
        else:
            for b in BMOLS:
                for aname, n, edges, acyc in a_molecules(False)[3::3]:
                    yield dict(unit, aname=aname, n=n, edges=edges, acyc=acyc, b=b, start='A', types=None,
                               restr='r00', ign=True, sf=10)
                    yield dict(unit, aname=aname, n=n, edges=edges, acyc=acyc, b=b, start='A', types=None,
                               restr='none', ign=True, sf=10)

    # ------------------------------------------------------------------
    def build_pair(self, case, seed):
        if case['k'] in ('small', 'seeds'):
            n, edges, acyc = case['n'], [tuple(e) for e in case['edges']], case['acyc']
            pa = generic_points(n, seed, scale=0.35, tag=10 + n) + np.array([0.3, -0.2, 0.1])
            if case.get('aname') == 'star4deg':
                pa = DEG_POS.copy()
            if case.get('aname') == 'chain3zero':
                pa = pa.copy()
                pa[2] = pa[1]
            names, bedges = BMOLS[case['b']]
            pb = generic_points(len(names), seed, scale=0.4, tag=30 + len(names))
            if case.get('far'):          # both molecules thousands of nm from the origin (legal in a .gro file)
                pa = pa + FAR_SHIFT
                pb = pb + FAR_SHIFT + np.array([0.25, -0.5, 0.125])
            el = 'H' if case.get('ahyd') else 'C'
            A = molecule('MOLA', [(f'{el}{i + 1}', 'MOLA', 1) for i in range(n)], edges, pa)
            B = molecule('MOLB', [(nm, 'MOLB', 1) for nm in names], bedges, pb)
            if case.get('same'):
                pb = generic_points(n, seed, scale=0.4, tag=60 + n) + np.array([-0.2, 0.3, 0.1])
                B = molecule('MOLA', [(f'{el}{i + 1}', 'MOLA', 1) for i in range(n)], edges, pb)
                return A, B, edges, edges, acyc, acyc
            return A, B, edges, bedges, acyc, True
        if case['k'] == 'large':
            ea = getattr(en, case['fam'])(40)
            eb = en.chain(41)
            pa = generic_points(40, seed, scale=1.0, tag=77) * 1.5
            pb = generic_points(41, seed, scale=1.0, tag=78) * 1.5
            A = molecule('MOLA', [(f'C{i + 1}', 'MOLA', 1) for i in range(40)], ea, pa)
            B = molecule('MOLB', [((f'H{i + 1}' if i % 3 == 1 else f'C{i + 1}'), 'MOLB', 1) for i in range(41)], eb, pb)
            return A, B, ea, eb, True, True
        # multi-residue pair: auto-guessed restraints (restrictions=None, two residues each)
        ea, eb = en.chain(3), en.chain(5)
        A = molecule('PROT', [('C1', 'ALA', 1), ('C2', 'ALA', 1), ('C3', 'GLY', 2)], ea,
                     generic_points(3, seed, scale=0.35, tag=91))
        B = molecule('PROT', [('C1', 'ALA', 1), ('H2', 'ALA', 1), ('C3', 'ALA', 1), ('C4', 'GLY', 2), ('H5', 'GLY', 2)],
                     eb, generic_points(5, seed, scale=0.4, tag=92))
        return A, B, ea, eb, True, True

    def check_case(self, case, R, seed):
        import gaddlemaps._backend as be
        from gaddlemaps import Alignment
        A, B, ea, eb, a_acyclic, b_acyclic = self.build_pair(case, seed)
        start_in, end_in = (A, B) if case['start'] == 'A' else (B, A)
        e_start, e_end = (ea, eb) if case['start'] == 'A' else (eb, ea)
        acyc_start, acyc_end = (a_acyclic, b_acyclic) if case['start'] == 'A' else (b_acyclic, a_acyclic)
        start_is_larger = len(start_in) >= len(end_in)
        mob_edges = e_end if start_is_larger else e_start
        mob_acyclic = acyc_end if start_is_larger else acyc_start
        types = tuple(case['types']) if case['types'] is not None else None
        eff_types = types
        if types is None:
            eff_types = (0,) if (len(start_in) == 1 or len(end_in) == 1) else (0, 1, 2)
        # ONE list object per case, handed to every execution of the case (a caller re-using its restraint list)
        restr = None if RESTR[case['restr']] is None else [tuple(p) for p in RESTR[case['restr']]]
        snap_s, snap_e = snapshot(start_in), snapshot(end_in)
        mob0 = (end_in if start_is_larger else start_in).atoms_positions
        bond0 = {e: float(np.linalg.norm(mob0[e[0]] - mob0[e[1]])) for e in map(tuple, mob_edges)}
        dev_at = set(case['dev_at']) if case.get('dev_at') else None
        degenerate = case.get('aname') in ('star4deg', 'chain3zero')
        rot_new = np.array([[0.0, -1.0, 0.0], [1.0, 0.0, 0.0], [0.0, 0.0, 1.0]])

        def shape_violation(conf):
            if not np.all(np.isfinite(conf)):
                return 'non-finite', ''
            if mob_acyclic:
                for e, ln in bond0.items():
                    if abs(np.linalg.norm(conf[e[0]] - conf[e[1]]) - ln) > 1e-9:
                        return 'bond-length-changed', f'{e}: {np.linalg.norm(conf[e[0]] - conf[e[1]])} vs {ln}'
            if 2 not in eff_types and not same_shape(conf, mob0, 1e-9):
                return 'pairwise-distance-changed-without-atom-moves', ''
            return None

        def one(ctx, rng_seed=None):
            proposals = []
            sink = [proposals]
            real_chi2 = be.Chi2Calculator

            class RecChi2:
                def __init__(s, m1, m2, restr=None):
                    s._r = real_chi2(m1, m2, restr)

                def __call__(s, m2):
                    sink[0].append(np.array(m2, float))
                    return s._r(m2)
            ali = Alignment(start_in, end_in)
            events = []
            cut = False
            err = None
            script = McScript(ctx, case.get('H', 6), events, dev_at) if rng_seed is None else None
            real_acc = be.accept_metropolis

            def rec_acc(e0, e1, *a, **k):
                if script is not None:
                    script.pending = (e0, e1)
                return real_acc(e0, e1, *a, **k)
            with patched(be, 'Chi2Calculator', RecChi2), patched(Alignment, 'STEPS_FACTOR', case['sf']), \
                    patched(be, 'accept_metropolis', rec_acc), quiet_stdout():
                try:
                    # no restraint list = the argument is OMITTED (the library's own default is used)
                    kw = dict(deformation_types=types, ignore_hydrogens=case['ign'])
                    if restr is not None:
                        kw['restrictions'] = restr
                    if rng_seed is None:
                        with owned_random(script):
                            ali.align_molecules(**kw)
                    else:
                        np.random.seed(rng_seed)
                        ali.align_molecules(**kw)
                except Horizon:
                    cut = True
                except Exception as exc:  # noqa
                    err = repr(exc)
                ph2 = None
                if case.get('reset') and not cut and err is None and rng_seed is None:
                    # history on the SAME Alignment: its mobile molecule is replaced by another conformation of the
                    # same species (20 % larger, rotated) and the alignment is run again
                    src = end_in if start_is_larger else start_in
                    newmob = src.copy()
                    newmob.atoms_positions = (mob0 - mob0.mean(axis=0)) @ rot_new.T * 1.2 + np.array([0.7, 0.1, -0.4])
                    np1 = newmob.atoms_positions
                    ph2 = {'final1': (ali.start.atoms_positions.copy(), ali.end.atoms_positions.copy()),
                           'newmob': newmob, 'snap_new': snapshot(newmob), 'proposals': [], 'cut': False, 'err': None,
                           'big_before': (ali.start if start_is_larger else ali.end).atoms_positions.copy(),
                           'bond1': {e: float(np.linalg.norm(np1[e[0]] - np1[e[1]])) for e in map(tuple, mob_edges)}}
                    sink[0] = ph2['proposals']
                    script.iteration = -1
                    try:
                        setattr(ali, 'end' if start_is_larger else 'start', newmob)
                        with owned_random(script):
                            ali.align_molecules(**kw)
                    except Horizon:
                        ph2['cut'] = True
                    except Exception as exc:  # noqa
                        ph2['err'] = repr(exc)
            return ali, proposals, events, cut, err, ph2

        def judge(desc, ali, proposals, events, cut, err, ph2=None):
            V = []
            if err:
                V.append(('align/unexpected-exception', err))
                return V
            for which, snap, mol in (('start', snap_s, start_in), ('end', snap_e, end_in)):
                diff = same_snapshot(snap, snapshot(mol))
                if diff:
                    V.append((f'align/caller-molecule-modified/{which}', diff))
            s_out, e_out = ali.start, ali.end
            for which, out, snap in (('start', s_out, snap_s), ('end', e_out, snap_e)):
                if [a.name for a in out] != snap[5] or list(out.resnames) != snap[4] or len(out) != snap[6]:
                    V.append((f'align/atom-order-or-names-changed/{which}', ''))
            sp1, ep1 = ph2['final1'] if ph2 is not None else (s_out.atoms_positions, e_out.atoms_positions)
            lp, large_in = (sp1, snap_s[0]) if start_is_larger else (ep1, snap_e[0])
            mob_final = ep1 if start_is_larger else sp1
            if not np.all(np.isfinite(lp)):
                V.append(('align/non-finite/larger', ''))
            elif start_is_larger:
                d = lp - large_in
                if np.abs(d - d[0]).max() > 1e-12:
                    V.append(('align/larger-molecule-not-purely-translated', str(np.abs(d - d[0]).max())))
            elif not np.array_equal(lp, large_in):
                V.append(('align/larger-end-molecule-touched', ''))
            if not cut:
                sv = shape_violation(mob_final)
                if sv:
                    V.append((f'align/final/{sv[0]}', sv[1]))
            for p in proposals:
                if degenerate and not np.all(np.isfinite(p)):
                    continue          # an undefined move direction may be PROPOSED; it must not be kept (final check)
                sv = shape_violation(p)
                if sv:
                    V.append((f'align/proposal/{sv[0]}', sv[1]))
                    break
            if ph2 is not None:
                V += judge_phase2(ali, ph2)
            return V

        def judge_phase2(ali, ph2):
            """Second alignment on the same Alignment after its mobile molecule was replaced by another conformation."""
            V = []
            if ph2['err']:
                return [('realign/unexpected-exception', ph2['err'])]
            for which, snap, mol in (('start', snap_s, start_in), ('end', snap_e, end_in),
                                     ('replacement', ph2['snap_new'], ph2['newmob'])):
                diff = same_snapshot(snap, snapshot(mol))
                if diff:
                    V.append((f'realign/caller-molecule-modified/{which}', diff))
            big = (ali.start if start_is_larger else ali.end).atoms_positions
            d = big - ph2['big_before']
            if start_is_larger:
                if not np.all(np.isfinite(big)) or np.abs(d - d[0]).max() > 1e-12:
                    V.append(('realign/larger-molecule-not-purely-translated', ''))
            elif not np.array_equal(big, ph2['big_before']):
                V.append(('realign/larger-end-molecule-touched', ''))
            confs = list(ph2['proposals'])
            if not ph2['cut']:
                confs.append((ali.end if start_is_larger else ali.start).atoms_positions)
            for ci, conf in enumerate(confs):
                if not np.all(np.isfinite(conf)):
                    if degenerate and ci < len(ph2['proposals']):
                        continue      # proposed, not kept
                    V.append(('realign/non-finite', ''))
                    break
                if mob_acyclic:
                    bad = [(e, float(np.linalg.norm(conf[e[0]] - conf[e[1]])), ln) for e, ln in ph2['bond1'].items()
                           if abs(np.linalg.norm(conf[e[0]] - conf[e[1]]) - ln) > 1e-9]
                    if bad:
                        V.append(('realign/bond-length-not-that-of-the-new-conformation', str(bad[0])))
                        break
            return V

        def on_exec(ctx, obs, cut_):
            ali, proposals, events, cut, err, ph2 = obs
            desc = dict(case, choices=list(ctx.trace))
            iters = sum(1 for e in events if e[0] == 'iter')
            R.traces += 1
            R.transitions += iters
            R.states += len(proposals)
            R.cut += int(cut)
            R.add('proposed_configurations_checked', len(proposals))
            R.case(desc, nontrivial=iters > 0,
                   outcome=('cut' if cut else 'done') + f'/it{min(iters, 9)}',
                   cls=f"{case['k']}{'/realign' if case.get('reset') else ''}{'/far' if case.get('far') else ''}/{'startL' if start_is_larger else 'endL'}/types{case['types']}/{case['restr']}/ign{int(case['ign'])}")
            for sig, det in judge(desc, ali, proposals, events, cut, err, ph2):
                R.violation(sig, desc, det)
            if ph2 is not None:
                R.add('realignments_after_replacing_the_mobile_molecule', 1)
                R.states += len(ph2['proposals'])
            # bit-identical replay of the same choice vector (every 5th execution; a replayed
            # counterexample is repeated several times because its failure is a coin toss by nature)
            if not cut and (R.traces % 5 == 0 or 'choices' in case):
                for _ in range(8 if 'choices' in case else 1):
                    # an UNRELATED alignment (other molecules' roles, a partial restraint list) runs in between: the
                    # outcome is a function of the inputs and the random stream, not of what the process did before
                    try:
                        other = Alignment(end_in, start_in)
                        with patched(Alignment, 'STEPS_FACTOR', 1), quiet_stdout(), \
                                owned_random(McScript(Ctx([]), 3, [], accept_menu=1)):
                            other.align_molecules([(len(end_in) - 1, 0)], None, False)
                    except (Horizon, Exception):
                        pass
                    ctx2 = Ctx(list(ctx.trace))
                    ali2 = one(ctx2)[0]
                    R.add('replayed_twice', 1)
                    if not (np.array_equal(ali2.start.atoms_positions, ali.start.atoms_positions) and
                            np.array_equal(ali2.end.atoms_positions, ali.end.atoms_positions) and
                            ctx2.trace == ctx.trace):
                        R.violation('align/not-deterministic-under-same-random-stream', desc, '')
                        break

        if case['k'] == 'seeds':
            # supplementary: the real generator, same seed twice -> bit-identical
            for rs in range(8):
                o1 = one(None, rng_seed=rs)
                # an unrelated alignment (roles swapped, another restraint) runs between the two identical ones
                try:
                    other = Alignment(end_in, start_in)
                    np.random.seed(1000 + rs)
                    with patched(Alignment, 'STEPS_FACTOR', 1), quiet_stdout():
                        # it restrains every atom but the first of the molecule that is mobile in the runs compared
                        if len(start_in) < len(end_in):
                            pairs = [(len(end_in) - 1, j) for j in range(1, len(start_in))]
                        else:
                            pairs = [(i, len(start_in) - 1) for i in range(1, len(end_in))]
                        other.align_molecules(pairs, None, False)
                        # ... and a multi-residue pair aligned with every argument omitted (restraints guessed)
                        pa, pb = self.build_pair({'k': 'multires'}, seed)[:2]
                        Alignment(pa, pb).align_molecules()
                except Exception:
                    pass
                o2 = one(None, rng_seed=rs)
                desc = dict(case, rng_seed=rs)
                R.case(desc, nontrivial=True, cls='seeds', outcome='seeded')
                R.traces += 2
                for sig, det in judge(desc, *o1):
                    R.violation(sig, desc, det)
                if not (np.array_equal(o1[0].start.atoms_positions, o2[0].start.atoms_positions) and
                        np.array_equal(o1[0].end.atoms_positions, o2[0].end.atoms_positions)):
                    R.violation('align/not-deterministic-under-same-seed', desc, '')
            return
        if 'choices' in case:
            ctx = Ctx(case['choices'])
            on_exec(ctx, one(ctx), False)
            return
        explore(one, case['D'], on_exec)


CHECK = C06()
