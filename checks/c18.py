"""C18 - copies are isolated, views write through, rigid operations preserve shape.

Explicit-state BFS over operation histories applied to an (original, copy) pair of real
objects, with a value-semantics reference model stepped alongside; the oracle runs after
every event and compares BOTH sides with their models (the untouched side bit for bit).
Object kinds: molecule with copy() / deep_copy() / the copy stored by an Alignment / the
molecule handed out by a System; residue; atom.  Plus one de Bruijn history per kind that
contains every ordered pair of events.
"""
import copy as pycopy

import itertools

import numpy as np

from mcx import bfs
from mcx.build import MemFile, generic_points, generic_rotations, gro_text, itp_text
from mcx.core import Check
from mcx.enum import de_bruijn_linear

# three residues; the last two carry the SAME name (adjacent residues told apart by their number only)
# (the middle residue has exactly three atoms: a (3, 3) coordinate array)
ATOMS = [('C1', 'RA', 1), ('C2', 'RA', 1), ('N1', 'RB', 2), ('N2', 'RB', 2), ('N3', 'RB', 2), ('N4', 'RB', 3)]
EDGES = [(0, 1), (1, 2), (2, 3), (2, 4), (4, 5)]
RES_OF = [0, 0, 1, 1, 1, 2]
N = 6


def _dec(a, d):
    """Values exactly as a reader parses them from d written decimals."""
    return np.array([[float(f'{v:.{d}f}') for v in row] for row in np.asarray(a)])


def tables(seed):
    pos = _dec(generic_points(N, seed, tag=18), 3)
    vel = _dec(generic_points(N, seed, tag=19) * 0.3, 4)
    vel[3] = 0.0                       # an atom at rest: a velocity of exactly zero is a velocity, not a missing one
    rot = generic_rotations(seed)[0]
    # atom 0 is nudged on the 0.001 nm grid of the file (a few steps) so that the rotation of the whole molecule about
    # its centre puts its x coordinate 5e-5 .. 4e-4 nm from the plane x = 0: a coordinate that PRINTS as 0.000 and is not 0
    best = None
    for a, b, c in itertools.product(range(-6, 7), repeat=3):
        q = pos.copy()
        q[0] = q[0] + np.array([a, b, c]) * 1e-3
        q = _dec(q, 3)
        ctr = q.mean(axis=0)
        x0 = float(((q - ctr) @ rot.T + ctr)[0, 0])
        far = float(np.linalg.norm(q[0] - pos[0]))
        if 5e-5 < abs(x0) < 4e-4 and (best is None or far < best[0]):
            best = (far, q)
    if best is None:
        # shift the whole molecule along x first so that the plane is within reach of the nudge
        ctr = pos.mean(axis=0)
        x0 = float(((pos - ctr) @ rot.T + ctr)[0, 0])
        pos = _dec(pos - np.array([round(x0, 3), 0.0, 0.0]), 3)
        for a, b, c in itertools.product(range(-6, 7), repeat=3):
            q = pos.copy()
            q[0] = q[0] + np.array([a, b, c]) * 1e-3
            q = _dec(q, 3)
            ctr = q.mean(axis=0)
            x0 = float(((q - ctr) @ rot.T + ctr)[0, 0])
            far = float(np.linalg.norm(q[0] - pos[0]))
            if 5e-5 < abs(x0) < 4e-4 and (best is None or far < best[0]):
                best = (far, q)
    if best is None:
        raise RuntimeError('tables: no grid position puts a rotated coordinate next to a coordinate plane')
    pos = best[1]
    return {
        'pos': pos, 'vel': vel, 'rot': rot,
        'd': np.array([0.25, -0.5, 0.125]), 'p': np.array([1.5, -0.75, 2.25]),
        'F': np.round(generic_points(N, seed, tag=20), 3) + 1.0,
        'P': np.round(generic_points(N, seed, tag=21), 3) - 1.0,
        'V': np.round(generic_points(N, seed, tag=22) * 0.2, 4),
        'x': np.array([9.0, 8.0, 7.0]), 'x2': np.array([-3.0, -2.0, -1.0]), 'x3': np.array([4.0, -6.0, 5.0]),
        'v': np.array([0.5, 0.25, -0.125]),
    }


def build_system(T, with_vel=True, reps=2):
    from gaddlemaps.components import System
    recs = []
    for rep in range(reps):            # two instances of the species in the file (one: a species that occurs once)
        for i, (an, rn, ri) in enumerate(ATOMS):
            recs.append((ri + 3 * rep, rn, an, i + 1 + N * rep, T['pos'][i] + rep * 2.0,
                         T['vel'][i] if with_vel else None))
    gro = MemFile(gro_text(recs), 'sys.gro')
    itp = MemFile(itp_text('MOL', ATOMS, EDGES), 'MOL.itp')
    return System(gro, itp)


class Model:
    """Value semantics: plain arrays and lists, deep copies everywhere."""

    def __init__(self, pos, vel, ids, resids, resnames, names):
        self.pos = np.array(pos, float)
        self.vel = [None if v is None else np.array(v, float) for v in vel]
        self.ids = list(ids)
        self.resids = list(resids)          # per atom
        self.resnames = list(resnames)      # per atom
        self.names = list(names)
        self.top = [(n, rn, ri) for n, rn, ri in zip(names, resnames, resids)]   # topology-level labels

    def clone(self):
        return pycopy.deepcopy(self)

    def sub(self, idx):
        return Model(self.pos[idx], [self.vel[i] for i in idx], [self.ids[i] for i in idx],
                     [self.resids[i] for i in idx], [self.resnames[i] for i in idx], [self.names[i] for i in idx])

    def velocities(self):
        if any(v is None for v in self.vel):
            return None
        return np.array(self.vel)


def observe(obj, kind):
    """Public observables of a library object as plain values."""
    if kind == 'atom':
        return {'pos': np.array(obj.position, float)[None, :],
                'vel': None if obj.velocity is None else np.array(obj.velocity, float)[None, :],
                'ids': [obj.atomid], 'resids': [obj.resid], 'resnames': [obj.resname], 'names': [obj.name]}
    vel = obj.atoms_velocities
    out = {'pos': np.array(obj.atoms_positions, float), 'vel': None if vel is None else np.array(vel, float),
           'ids': list(obj.atoms_ids), 'names': [a.name for a in obj],
           'centre': np.array(obj.geometric_center, float)}
    if kind == 'residue':
        out['resids'] = [obj.resid]
        out['resnames'] = [obj.resname]
    else:
        out['resids'] = list(obj.resids)
        out['resnames'] = list(obj.resnames)
        out['top'] = [(a.name, a.resname, a.resid) for a in obj.molecule_top]
    return out


def expected(model, kind, res_of, deep=False):
    out = {'pos': model.pos, 'vel': model.velocities(), 'ids': model.ids, 'names': model.names}
    if kind in ('atom', 'residue'):
        out['resids'] = [model.resids[0]]
        out['resnames'] = [model.resnames[0]]
    else:
        firsts = [res_of.index(r) for r in sorted(set(res_of))]
        out['resids'] = [model.resids[i] for i in firsts]
        out['resnames'] = [model.resnames[i] for i in firsts]
        if deep:
            out['top'] = list(model.top)
    return out


def compare(obs, exp, exact):
    tol = 0.0 if exact else 1e-12
    for k in ('pos', 'vel'):
        a, b = obs[k], exp[k]
        if (a is None) != (b is None):
            return k, f'{"None" if a is None else "set"} vs expected {"None" if b is None else "set"}'
        if a is not None:
            if a.shape != np.shape(b):
                return k, f'shape {a.shape}'
            dmax = float(np.abs(a - b).max())
            if (exact and not np.array_equal(a, b)) or dmax > tol:
                return k, f'max difference {dmax:.3e}'
    if 'centre' in obs:
        c = np.asarray(exp['pos']).mean(axis=0)
        if np.abs(obs['centre'] - c).max() > 1e-12:
            return 'centre', f'geometric centre off by {float(np.abs(obs["centre"] - c).max()):.3e}'
    for k in ('ids', 'resids', 'resnames', 'names') + (('top',) if 'top' in exp else ()):
        if list(obs[k]) != list(exp[k]):
            return k, f'{obs[k]} vs expected {exp[k]}'
    return None


class State:
    pass


class C18(Check):
    pid = 'C18'
    level = 'model_checking'
    rule = ('state = operation history on an (original, copy) pair; events = {re-derive copy, move, move_to, rotate, '
            'set positions (fresh array / array already given to the other object), set velocities, velocities=None, '
            'set atom ids, set residue numbers, set residue names (deep copies only), assignment through an atom view '
            'by index and by iteration} x {original, copy}; BFS to the stated depth with canonical-key merging '
            '(observables + alias fingerprint), oracle after every transition; distinct by history; non-trivial = '
            'the event changed at least one observable of its side')
    technique = ('explicit-state breadth-first search over operation histories on the real objects against a '
                 'value-semantics reference model; de Bruijn histories containing every ordered event pair')
    level_text = ('all operation histories up to depth 3 (quick; depth 2 on four of the five alignment-produced / velocity-free '
                  'molecule kinds) / 3-4 (thorough) on every object kind are executed on the '
                  'real classes and compared, after every event and on both sides, with a value-semantics model; longer '
                  'histories are covered by de Bruijn words (every ordered pair of events inside one long history)')
    level_note = ('trusted: numpy, the reference model (plain arrays, deep copies), the builders. Not covered: histories '
                  'longer than the depth bound other than the de Bruijn words, in-place mutation of arrays by the user, '
                  'argument values outside the tables')
    assumptions = ['coordinates/velocities/rotation from VERIF_SEED tables',
                   'Residue objects reached through Molecule.residues are not claimed to be views (not in the statement)']

    KINDS = ('mol_copy', 'mol_deep', 'mol_align_start', 'mol_align_end', 'mol_align_restart', 'mol_align_reend',
             'mol_system_index', 'mol_system_iter', 'mol_system_single', 'mol_novel', 'residue', 'atom')

    def units(self, tier, seed):
        deep_kinds = ('mol_copy', 'mol_deep', 'residue', 'atom') if tier == 'thorough' else ()
        # quick tier: the object kinds that differ from 'mol_align_end' only in how the pair was produced are
        # explored to depth 2 (every ordered pair of events), the others to depth 3; thorough: 3 and 4
        shallow = ('mol_novel', 'mol_align_start', 'mol_align_reend', 'mol_align_restart', 'mol_system_single') if tier != 'thorough' else ()
        self.bounds = {'depth': 3, 'depth_for': dict({k: 4 for k in deep_kinds}, **{k: 2 for k in shallow}),
                       'de_bruijn_order': 2, 'kinds': list(self.KINDS)}
        u = []
        for kind in self.KINDS:
            depth = 4 if kind in deep_kinds else (2 if kind in shallow else 3)
            evs = self.alphabet(kind)
            if kind.startswith('mol') and depth >= 3:
                # partition the BFS by the first event (exact: the subtrees are disjoint histories)
                for i in range(len(evs)):
                    u.append({'k': 'bfs', 'kind': kind, 'depth': depth, 'first': i})
                u.append({'k': 'bfs', 'kind': kind, 'depth': 1, 'first': None})
            else:
                u.append({'k': 'bfs', 'kind': kind, 'depth': depth, 'first': None})
            u.append({'k': 'debruijn', 'kind': kind})
        return u

    def cases(self, unit, tier, seed):
        yield unit

    # -- alphabet ---------------------------------------------------------
    def alphabet(self, kind):
        if kind == 'atom':
            per = ['set_pos', 'set_vel', 'vel_none', 'set_id', 'set_resid', 'set_name']
            return [['rederive']] + [[e, s] for s in ('orig', 'copy') for e in per]
        per = ['move', 'move_to', 'rotate', 'set_pos', 'set_pos_shared', 'set_vel', 'vel_none', 'set_ids',
               'view_pos_index', 'view_vel_index', 'view_pos_iter', 'view_vel_inplace', 'view_pos_inplace',
               'atoms_copies']
        if kind == 'residue':
            per += ['set_resid', 'set_resname']
        else:
            per += ['set_resids_list', 'set_resids_int']
            if kind == 'mol_deep':
                per += ['set_resnames']
        sides = ('orig', 'copy')
        if kind.startswith('mol_system'):
            sides = ('copy',)                 # the "original" is the System itself
        return [['rederive']] + [[e, s] for s in sides for e in per]

    # -- state construction -------------------------------------------------
    def build(self, kind, T):
        from gaddlemaps import Alignment
        st = State()
        st.kind = kind
        st.T = T
        with_vel = kind != 'mol_novel'
        st.syst = build_system(T, with_vel, 1 if kind == 'mol_system_single' else 2)
        vel0 = [T['vel'][i] if with_vel else None for i in range(N)]
        full = Model(T['pos'], vel0, list(range(1, N + 1)), [a[2] for a in ATOMS],
                     [a[1] for a in ATOMS], [a[0] for a in ATOMS])
        st.okind = 'molecule'
        st.res_of = RES_OF
        if kind.startswith('mol'):
            st.orig = st.syst[0]
            st.m_orig = full
            if kind.startswith('mol_system'):
                st.orig = None
        elif kind == 'residue':
            st.okind = 'residue'
            st.orig = st.syst.system_gro[1]
            st.m_orig = full.sub([2, 3, 4])
            st.res_of = [0, 0, 0]
        else:
            st.okind = 'atom'
            st.orig = st.syst.system_gro[1][1]
            st.m_orig = full.sub([3])
            st.res_of = [0]
        st.n = len(st.m_orig.ids)
        self.derive(st)
        return st

    def derive(self, st):
        from gaddlemaps import Alignment
        k = st.kind
        st.nderive = getattr(st, 'nderive', -1) + 1
        handover = st.nderive % 2 == 1          # every second derivation hands the original's own residues over
        if k == 'mol_copy' or k == 'mol_novel' or k in ('residue', 'atom'):
            st.copy = st.orig.copy(st.orig.residues) if (handover and k.startswith('mol')) else st.orig.copy()
        elif k == 'mol_deep':
            st.copy = st.orig.deep_copy(st.orig.residues) if handover else st.orig.deep_copy()
        elif k == 'mol_align_start':
            st.keep = Alignment(start=st.orig)
            st.copy = st.keep.start
        elif k == 'mol_align_end':
            st.keep = Alignment(end=st.orig)
            st.copy = st.keep.end
        elif k == 'mol_align_restart':
            # both molecules set, then the start re-assigned ("same molecule, new configuration")
            st.keep = Alignment(start=st.syst[1], end=st.syst[1])
            st.keep.start = st.orig
            st.copy = st.keep.start
        elif k == 'mol_align_reend':
            st.keep = Alignment(start=st.syst[1], end=st.syst[1])
            st.keep.end = st.orig
            st.copy = st.keep.end
        elif k in ('mol_system_index', 'mol_system_single'):
            st.copy = st.syst[0]
            st.m_orig = st.m_orig if st.orig is not None else st.m_orig
        elif k == 'mol_system_iter':
            st.copy = next(iter(st.syst))
        st.m_copy = st.m_orig.clone()

    # -- one transition -------------------------------------------------------
    def step(self, st, ev):
        T = st.T
        V = []
        name = ev[0]
        if name == 'rederive':
            self.derive(st)
            touched = None
        else:
            side = ev[1]
            obj = st.orig if side == 'orig' else st.copy
            mod = st.m_orig if side == 'orig' else st.m_copy
            touched = side
            n = st.n
            idx = list(range(n))
            i1, i2, i3 = min(1, n - 1), min(2, n - 1), min(3, n - 1)
            try:
                # the SAME argument arrays are handed to every call of a history (original and copy alike):
                # an operation must not write into the array it is given
                if not hasattr(st, 'args'):
                    st.args = {k: T[k].copy() for k in ('d', 'p', 'rot')}
                if name == 'move':
                    obj.move(st.args['d'])
                    mod.pos = mod.pos + T['d']
                elif name == 'move_to':
                    obj.move_to(st.args['p'])
                    mod.pos = mod.pos + (T['p'] - mod.pos.mean(axis=0))
                elif name == 'rotate':
                    obj.rotate(st.args['rot'])
                    c = mod.pos.mean(axis=0)
                    mod.pos = (mod.pos - c) @ T['rot'].T + c
                elif name == 'set_pos':
                    if st.okind == 'atom':
                        obj.position = T['F'][3].copy()
                    else:
                        obj.atoms_positions = T['F'][-n:].copy()
                    mod.pos = T['F'][-n:].copy() if st.okind != 'atom' else T['F'][3:4].copy()
                elif name == 'set_pos_shared':
                    if not hasattr(st, 'shared'):
                        st.shared = T['P'][-n:].copy()      # one array object given to both sides
                    obj.atoms_positions = st.shared
                    mod.pos = T['P'][-n:].copy()
                elif name == 'set_vel':
                    if st.okind == 'atom':
                        obj.velocity = T['V'][3].copy()
                        mod.vel = [T['V'][3].copy()]
                    else:
                        obj.atoms_velocities = T['V'][-n:].copy()
                        mod.vel = [r.copy() for r in T['V'][-n:]]
                elif name == 'vel_none':
                    if st.okind == 'atom':
                        obj.velocity = None
                    else:
                        obj.atoms_velocities = None
                    mod.vel = [None] * n
                elif name == 'set_ids':
                    new = [100 + 7 * i for i in idx]
                    obj.atoms_ids = list(new)
                    mod.ids = new
                elif name == 'set_id':
                    obj.atomid = 77
                    mod.ids = [77]
                elif name == 'set_resid':
                    obj.resid = 42
                    mod.resids = [42] * n
                elif name == 'set_resname':
                    obj.resname = 'NEW'
                    mod.resnames = ['NEW'] * n
                elif name == 'set_name':
                    obj.name = 'ZZ'
                    mod.names = ['ZZ']
                elif name == 'set_resids_list':
                    obj.resids = [31, 32, 33]
                    mod.resids = [31 + r for r in st.res_of]
                    mod.top = [(t[0], t[1], r) for t, r in zip(mod.top, mod.resids)]
                elif name == 'set_resids_int':
                    obj.resids = 9
                    mod.resids = [9] * n
                    mod.top = [(t[0], t[1], 9) for t in mod.top]
                elif name == 'set_resnames':
                    obj.resnames = ['XA', 'XB', 'XC']
                    mod.resnames = [('XA', 'XB', 'XC')[r] for r in st.res_of]
                    mod.top = [(t[0], rn, t[2]) for t, rn in zip(mod.top, mod.resnames)]
                elif name == 'view_pos_index':
                    obj[i1].position = T['x'].copy()
                    mod.pos = mod.pos.copy()
                    mod.pos[i1] = T['x']
                elif name == 'view_vel_index':
                    obj[i3 - n].velocity = T['v'].copy()          # the same atom, reached by a NEGATIVE index
                    mod.vel = list(mod.vel)
                    mod.vel[i3] = T['v'].copy()
                elif name == 'view_vel_inplace':
                    # augmented assignment through a live view: the view's own array is updated in place
                    at = obj[i1]
                    if at.velocity is not None:
                        at.velocity += T['v']
                        mod.vel = list(mod.vel)
                        mod.vel[i1] = mod.vel[i1] + T['v']
                elif name == 'view_pos_inplace':
                    # (a no-op once the USER has handed one array object to both sides - set_pos_shared -: the
                    # setter keeps row views of the caller's array, so an in-place update would then be the user
                    # mutating an array he shares himself, which the statement does not cover)
                    if not hasattr(st, 'shared'):
                        at = obj[i2]
                        at.position += T['d']
                        mod.pos = mod.pos.copy()
                        mod.pos[i2] = mod.pos[i2] + T['d']
                elif name == 'atoms_copies':
                    # the documented `.atoms` property hands out COPIES of the atoms: assigning to them (position,
                    # velocity, number) changes nothing in the object they were taken from
                    got = obj.atoms
                    got[i1].position = T['x3'].copy()
                    got[0].position += T['d']
                    if got[i2].velocity is not None:
                        got[i2].velocity = T['v'].copy()
                    got[i3].atomid = 4242
                elif name == 'view_pos_iter':
                    for j, at in enumerate(obj):
                        if j == i2:
                            at.position = T['x2'].copy()
                    mod.pos = mod.pos.copy()
                    mod.pos[i2] = T['x2']
                    # ... and through views obtained by iteration that are HELD beyond their loop step
                    views = list(obj)
                    views[0].position = T['x3'].copy()
                    mod.pos[0] = T['x3']
                else:
                    raise AssertionError(name)
            except AssertionError:
                raise
            except Exception as exc:
                V.append((f'{st.kind}/{name}/unexpected-exception', repr(exc)))
                return V
            # (an operation that overwrites the array it was given is not reported by itself - the statement does
            # not mention it - but through its consequence: the next call given the same array no longer moves its
            # object "to the requested point" / "by exactly the displacement" the caller wrote into that array)
        # oracle: both sides against their models
        for side in ('orig', 'copy'):
            obj = st.orig if side == 'orig' else st.copy
            mod = st.m_orig if side == 'orig' else st.m_copy
            if obj is None:
                # System kind: a freshly fetched molecule must always show the file's values
                for how, fresh in (('index', st.syst[0]), ('iter', next(iter(st.syst)))):
                    bad = compare(observe(fresh, 'molecule'), expected(st.m_orig, 'molecule', st.res_of), exact=True)
                    if bad:
                        V.append((f'{st.kind}/{name}/system-content-changed-by-operation-on-handed-out-molecule/{bad[0]}',
                                  f'fetched by {how}: {bad[1]}'))
                continue
            exact = side != touched
            if name in ('move', 'move_to', 'rotate') and side == touched:
                exact = False
            bad = compare(observe(obj, st.okind), expected(mod, st.okind, st.res_of, deep=(st.kind == 'mol_deep')),
                          exact=(side != touched))
            if bad:
                if side != touched and name != 'rederive':
                    sig = f'{st.kind}/{name}-on-{touched}/{side}-changed/{bad[0]}'
                elif name == 'rederive':
                    sig = f'{st.kind}/rederive/{side}-differs/{bad[0]}'
                else:
                    sig = f'{st.kind}/{name}/result-differs-from-value-semantics/{bad[0]}'
                V.append((sig, bad[1]))
        return V

    # -- canonical key ---------------------------------------------------------
    def key(self, st):
        parts = []
        objs = []
        for side in ('orig', 'copy'):
            obj = st.orig if side == 'orig' else st.copy
            mod = st.m_orig if side == 'orig' else st.m_copy
            parts.append((np.round(mod.pos, 9).tobytes(),
                          tuple(None if v is None else np.round(v, 9).tobytes() for v in mod.vel),
                          tuple(mod.ids), tuple(mod.resids), tuple(mod.resnames), tuple(mod.names)))
            if obj is None:
                continue
            if st.okind == 'atom':
                objs.append(obj)
            elif st.okind == 'residue':
                objs.extend(list(obj))
            else:
                objs.extend(a.atom_gro for a in obj)
        # alias fingerprint: identity partition of atom objects and memory partition of their arrays
        ident, mem = [], []
        first_id, first_mem = {}, []
        for o in objs:
            ident.append(first_id.setdefault(id(o), len(first_id)))
            for arr in (o.position, o.velocity):
                if arr is None:
                    mem.append(-1)
                    continue
                for j, other in enumerate(first_mem):
                    if np.shares_memory(arr, other):
                        mem.append(j)
                        break
                else:
                    first_mem.append(arr)
                    mem.append(len(first_mem) - 1)
        top = None
        if st.okind == 'molecule' and st.orig is not None:
            top = st.orig.molecule_top is st.copy.molecule_top
        return (tuple(parts), tuple(ident), tuple(mem), top, hasattr(st, 'shared'), getattr(st, 'nderive', 0) % 2)

    # -- driver ---------------------------------------------------------------
    def check_case(self, case, R, seed):
        T = tables(seed)
        kind = case['kind']
        evs = self.alphabet(kind)

        def on_transition(hist, ev, viol):
            desc = {'k': 'replay', 'kind': kind, 'history': hist + [ev]}
            R.transitions += 1
            R.case(desc, nontrivial=True, cls=f'{kind}/{ev[0]}', outcome=f"{ev[0]}:{'ok' if not viol else 'violation'}")
            for sig, det in viol:
                R.violation(sig, desc, det)

        if case['k'] == 'replay':
            st = self.build(kind, T)
            for i, ev in enumerate(case['history']):
                viol = self.step(st, ev)
                if i == len(case['history']) - 1:
                    on_transition(case['history'][:-1], ev, viol)
            return
        if case['k'] == 'debruijn':
            word = de_bruijn_linear(len(evs), 2)
            hist = [evs[i] for i in word]
            bfs.run_history(lambda: self.build(kind, T), self.step, hist, on_transition)
            R.traces += 1
            R.add('max_history_length', len(hist))
            return
        first = case.get('first')
        if first is None:
            stt = bfs.bfs(lambda: self.build(kind, T), lambda s: evs, self.step, self.key, case['depth'], on_transition)
        else:
            ev0 = evs[first]
            if self.step(self.build(kind, T), ev0):
                return          # the first event already diverges: reported by the depth-1 unit, not expanded

            def build0():
                s = self.build(kind, T)
                self.step(s, ev0)
                return s

            def on_t(hist, ev, viol):
                on_transition([ev0] + hist, ev, viol)
            stt = bfs.bfs(build0, lambda s: evs, self.step, self.key, case['depth'] - 1, on_t)
        R.states += stt['states']
        R.traces += stt['transitions']
        R.add('max_depth_completed', stt['depth_completed'] + (1 if first is not None else 0))


CHECK = C18()
