"""C08 - the overlap measure (chi2) equals its reference definition for all restraint sets.

Enumerated completely (no sampling): sizes (n1, n2) x EVERY restraint list of length
0..L over the n1*n2 (fixed, mobile) pairs x construction configuration x evaluation
configuration (always different from the construction one) x rigid motions x
relabellings, executed on the real Chi2Calculator and compared with the plain-loop
reference mcx.ref.chi2.ref_chi2 written from the statement.  Boundary sizes 40 x 25
and 25 x 40 with structured restraint sets.
"""
import itertools

import numpy as np

from mcx.build import cube_rotations, generic_points, generic_rotations
from mcx.core import Check
from mcx.ref.chi2 import all_gap, nn_gap, ref_parts

N_CONSTR = 2           # construction configurations of the mobile molecule
N_EVAL = 4             # evaluation configurations (all different from the construction ones)
TOL_REF = 1e-12        # relative, value vs reference (design C08)
TOL_INV = 1e-10        # relative, rigid motion / relabelling invariance (design C08)
BIG = ((40, 25), (25, 40))
BIG_SETS = ('empty', 'every_fixed', 'every_second', 'all_onto_one', 'some_onto_one',
            'dup_fixed', 'dup_pair')

_TABLES = {}


def small_tables(seed):
    """Fixed table (4 points) and N_CONSTR + N_EVAL mobile tables (4 points each); for every
    fixed atom all squared distances to the atoms of one mobile table differ by >= 1e-3
    (no nearest-neighbour ties, also for every prefix of the tables)."""
    key = ('small', seed)
    if key not in _TABLES:
        fixed = generic_points(4, seed, tag=801)
        mob = []
        tag = 810
        while len(mob) < N_CONSTR + N_EVAL:
            cand = generic_points(4, seed, tag=tag) + np.array([0.03, -0.02, 0.05]) * len(mob)
            tag += 1
            if tag > 2000:
                raise RuntimeError('small_tables: cannot satisfy the tie margin')
            if all_gap(fixed, cand) < 1e-3:
                continue
            if any(np.abs(cand - m).max() < 0.05 for m in mob):
                continue
            mob.append(cand)
        _TABLES[key] = (fixed, mob)
    return _TABLES[key]


def big_tables(seed, n1, n2):
    key = ('big', seed, n1, n2)
    if key not in _TABLES:
        rng = np.random.default_rng([int(seed), n1, n2, 6007])
        fixed = rng.uniform(-1.0, 1.0, (n1, 3))
        mob = []
        tries = 0
        while len(mob) < N_CONSTR + N_EVAL:
            tries += 1
            if tries > 5000:
                raise RuntimeError('big_tables: cannot satisfy the tie margin')
            cand = rng.uniform(-1.0, 1.0, (n2, 3))
            if nn_gap(fixed, cand) >= 1e-4:
                mob.append(cand)
        _TABLES[key] = (fixed, mob)
    return _TABLES[key]


def motions(seed):
    key = ('motions', seed)
    if key not in _TABLES:
        rng = np.random.default_rng([int(seed), 4241])
        rots = cube_rotations() + generic_rotations(seed)
        trans = [np.zeros(3), np.array([100.0, -50.0, 25.0]), rng.uniform(-3, 3, 3),
                 np.array([3000.0, -2000.0, 1000.0])]      # far corner of a large system box
        # index 0 is (identity-like first cube rotation, zero translation); all are proper motions
        _TABLES[key] = [(r, t) for r in rots for t in trans]
    return _TABLES[key]


def big_restraints(kind, n1, n2):
    if kind == 'empty':
        return []
    if kind == 'every_fixed':
        return [[i, i % n2] for i in range(n1)]
    if kind == 'every_second':
        return [[i, (i // 2) % n2] for i in range(0, n1, 2)]
    if kind == 'all_onto_one':
        return [[i, 0] for i in range(n1)]
    if kind == 'some_onto_one':
        return [[i, 3] for i in range(5)]
    if kind == 'dup_fixed':
        return [[i, (i + s) % n2] for i in range(10) for s in (0, 1)]
    if kind == 'dup_pair':
        return [[2, 5], [7, 1], [2, 5], [11, 1]]
    raise AssertionError(kind)


def big_perms(n):
    ident = list(range(n))
    rev = ident[::-1]
    cyc = ident[1:] + ident[:1]
    swp = [1, 0] + ident[2:]
    return [ident, rev, cyc, swp]


def small_perms(n1, n2):
    """Pairs (perm of fixed, perm of mobile): every pair for sizes <= 3, otherwise the
    identity plus every transposition on each side."""
    if n1 <= 3 and n2 <= 3:
        return [(list(p), list(q)) for p in itertools.permutations(range(n1))
                for q in itertools.permutations(range(n2))]

    def gens(n):
        out = [list(range(n))]
        for a, b in itertools.combinations(range(n), 2):
            p = list(range(n))
            p[a], p[b] = b, a
            out.append(p)
        return out
    return ([(p, list(range(n2))) for p in gens(n1)] +
            [(list(range(n1)), q) for q in gens(n2)[1:]])


def relabel(arr, perm):
    """new[perm[i]] = arr[i]"""
    out = np.empty_like(arr)
    out[np.array(perm)] = arr
    return out


def path_of(n1, restr):
    if not restr:
        return 'none'
    return 'all' if len({i for i, _ in restr}) == n1 else 'some'


def dup_class(restr):
    pairs = [tuple(r) for r in restr]
    if len(set(pairs)) < len(pairs):
        return 'duppair'
    fx = [i for i, _ in pairs]
    mb = [j for _, j in pairs]
    if len(set(fx)) < len(fx):
        return 'dupfixed'
    if len(set(mb)) < len(mb):
        return 'dupmobile'
    return 'plain'


def rel_diff(a, b):
    return abs(a - b) / max(abs(a), abs(b), 1e-300)


class C08(Check):
    pid = 'C08'
    level = 'exploration'
    rule = ('case = (n1, n2, restraint list, construction configuration, evaluation configuration, '
            'rigid motion | relabelling | identity); every restraint list of length 0..L over all '
            'n1*n2 pairs is enumerated (ordered, with repetitions), plus structured restraint sets at '
            '40x25 and 25x40; distinct by descriptor; non-trivial = the calculator was evaluated on a '
            'configuration other than the one it was constructed with and the reference value is > 0')
    technique = ('exhaustive enumeration of all restraint lists x configurations x rigid motions x relabellings '
                 'on the real Chi2Calculator, compared with a plain nested-loop reference of the statement')
    level_text = ('every ordered restraint list (repetitions included) up to length 3 for all sizes up to 3x3 '
                  '(quick) / up to 4x4, and length 4 up to 3x3 (thorough), 2 construction x 4 evaluation '
                  'configurations, 81 rigid motions and every relabelling, plus structured restraint sets at '
                  '40x25 / 25x40, are executed on the real calculator and compared with the reference; a '
                  'coverage statement over that finite space, not a proof for all coordinate values')
    level_note = ('trusted: numpy/scipy arithmetic, the plain-loop reference mcx/ref/chi2.py (written from the '
                  'statement), tie-free coordinate tables; sizes between 4x4 and 40x25, other coordinate values '
                  'and nearest-neighbour ties are not covered')
    assumptions = ['coordinates from conditioned generic tables selected by VERIF_SEED: for every fixed atom '
                   'all squared distances to the mobile atoms of one configuration differ by >= 1e-3 '
                   '(>= 1e-4 between the two nearest at 40x25 / 25x40), so the nearest atom is never a tie',
                   'a restraint list is read literally: a pair listed twice contributes twice to the '
                   'restrained sum and once to the set of restrained atoms',
                   'tolerances: 1e-12 relative against the reference, 1e-10 relative for rigid motions '
                   'and relabellings',
                   'the fixed molecule and the number of mobile atoms are the same at construction and '
                   'evaluation (only mobile coordinates change)']

    # ------------------------------------------------------------------
    def units(self, tier, seed):
        thorough = tier == 'thorough'
        nmax = 4 if thorough else 3
        self.bounds = {'sizes': f'(n1, n2) in {{1..{nmax}}}^2', 'list_length_max': 3,
                       'list_length_max_sizes_le_3': 4 if thorough else 3,
                       'construction_configs': N_CONSTR, 'evaluation_configs': N_EVAL,
                       'rigid_motions': 81, 'motion_and_relabel_on_config_pairs': 8 if thorough else 2,
                       'relabellings': 'all permutations (sizes <= 3), all transpositions (size 4)',
                       'boundary_sizes': [list(b) for b in BIG], 'boundary_restraint_sets': list(BIG_SETS)}
        u = []
        for n1 in range(1, nmax + 1):
            for n2 in range(1, nmax + 1):
                p = n1 * n2
                lmax = 4 if (thorough and n1 <= 3 and n2 <= 3) else 3
                for L in range(0, lmax + 1):
                    plen = 0
                    while p ** (L - plen) > 300 and plen < L:
                        plen += 1
                    for pre in itertools.product(range(p), repeat=plen):
                        u.append({'k': 'lists', 'n1': n1, 'n2': n2, 'L': L, 'pre': list(pre)})
        for n1, n2 in BIG:
            for kind in BIG_SETS:
                u.append({'k': 'big', 'n1': n1, 'n2': n2, 'set': kind})
        # NEAR ties of the nearest mobile atom (the two closest differ by 1e-7 relative in squared distance: no tie,
        # far above rounding): one unit
        self.bounds['near_tie_of_nearest_atom'] = 'relative gaps 1e-7, 1e-6, 1e-4 of the squared distance; sizes up to 3x4'
        u.append({'k': 'neartie', 'n1': 3, 'n2': 4})
        # heavy units first
        u.sort(key=lambda d: -(d['n1'] * d['n2']) ** (d.get('L', 2) - len(d.get('pre', []))))
        return u

    def cases(self, unit, tier, seed):
        thorough = tier == 'thorough'
        if unit['k'] == 'neartie':
            for n1 in (1, 2, 3):
                for n2 in (2, 3, 4):
                    for gap in (1e-7, 1e-6, 1e-4):
                        for restr in ([], [[0, 0]], [[n1 - 1, n2 - 1]]):
                            yield {'k': 'neartie', 'n1': n1, 'n2': n2, 'gap': gap, 'restr': restr}
            return
        if unit['k'] == 'lists':
            n1, n2, L, pre = unit['n1'], unit['n2'], unit['L'], unit['pre']
            pairs = [[i, j] for i in range(n1) for j in range(n2)]
            for rest in itertools.product(range(len(pairs)), repeat=L - len(pre)):
                restr = [pairs[x] for x in tuple(pre) + rest]
                yield {'k': 'list', 'n1': n1, 'n2': n2, 'restr': restr, 'full': thorough}
        else:
            yield {'k': 'big', 'n1': unit['n1'], 'n2': unit['n2'], 'set': unit['set'], 'full': thorough}

    # ------------------------------------------------------------------
    def check_case(self, case, R, seed):
        from gaddlemaps._backend import Chi2Calculator
        n1, n2 = case['n1'], case['n2']
        if case['k'] == 'neartie':
            return self._neartie(case, R, seed)
        if case['k'] == 'list':
            ftab, mtabs = small_tables(seed)
            fixed = ftab[:n1].copy()
            mobs = [m[:n2].copy() for m in mtabs]
            restr = [list(r) for r in case['restr']]
            perms = small_perms(n1, n2)
        else:
            fixed, mobs = big_tables(seed, n1, n2)
            restr = big_restraints(case['set'], n1, n2)
            perms = [(p, q) for p in big_perms(n1) for q in big_perms(n2)]
        mots = motions(seed)
        path = path_of(n1, restr)
        tag = f"{path}/L{min(len(restr), 5)}/{dup_class(restr)}" + ('/big' if case['k'] == 'big' else '')
        combos = [(c, e) for c in range(N_CONSTR) for e in range(N_CONSTR, N_CONSTR + N_EVAL)]
        if 'c' in case:
            combos = [(case['c'], case['e'])]
        wide = combos if case.get('full') else [combos[0], combos[-1]]

        def evaluate(fx, mc, me, rs):
            return float(Chi2Calculator(fx, mc, rs)(me))

        for c, e in combos:
            base = dict(case, c=c, e=e)
            mc, me = mobs[c], mobs[e]
            s_r, s_n, k, _ = ref_parts(fixed, me, restr)
            want = (s_r + s_n) * 1.1 ** k
            only = case.get('sub')
            val = None
            # -- identity: value vs reference ------------------------------------
            try:
                val = evaluate(fixed.copy(), mc.copy(), me.copy(), [list(r) for r in restr])
            except Exception as exc:            # any exception is "an error"
                if only in (None, 'id'):
                    d = dict(base, sub='id')
                    R.case(d, nontrivial=True, outcome='exception', cls=tag)
                    R.violation(f'chi2/{path}/exception', d, repr(exc))
                continue
            if only in (None, 'id'):
                d = dict(base, sub='id')
                R.case(d, nontrivial=want > 0, outcome=f'k={k}', cls=tag)
                if not np.isfinite(val):
                    R.violation(f'chi2/{path}/non-finite', d, val)
                elif val < 0:
                    R.violation(f'chi2/{path}/negative', d, val)
                elif rel_diff(val, want) > TOL_REF:
                    R.violation(f'chi2/{path}/differs-from-reference', d,
                                f'calculator={val!r} reference={want!r} (restrained={s_r!r} nearest={s_n!r} '
                                f'k={k}) rel={rel_diff(val, want):.3e}')
                R.add('max_rel_diff_ref_e18', int(min(rel_diff(val, want), 1.0) * 1e18))
            # -- no restraints given as the default argument (None) instead of an empty list ----
            if not restr and only in (None, 'default-arg'):
                d = dict(base, sub='default-arg')
                try:
                    v0 = float(Chi2Calculator(fixed.copy(), mc.copy())(me.copy()))
                except Exception as exc:
                    R.case(d, nontrivial=True, outcome='exception', cls=tag + '/default-arg')
                    R.violation(f'chi2/{path}/exception', d, repr(exc))
                else:
                    R.case(d, nontrivial=want > 0, cls=tag + '/default-arg')
                    if not (rel_diff(v0, want) <= TOL_REF):
                        R.violation(f'chi2/{path}/differs-from-reference', d,
                                    f'calculator={v0!r} reference={want!r} k={k}')
            if (c, e) not in wide and only is None:
                continue
            # -- rigid motions applied to both sets --------------------------------
            if only in (None, 'motion'):
                idxs = [case['mot']] if 'mot' in case else range(len(mots))
                for mi in idxs:
                    rot, tr = mots[mi]
                    d = dict(base, sub='motion', mot=mi)
                    try:
                        v2 = evaluate(fixed @ rot.T + tr, mc @ rot.T + tr, me @ rot.T + tr,
                                      [list(r) for r in restr])
                    except Exception as exc:
                        R.case(d, nontrivial=True, outcome='exception')
                        R.violation(f'chi2/{path}/exception', d, repr(exc))
                        continue
                    R.case(d, nontrivial=want > 0)
                    # differences of coordinates shifted by T carry a relative error ~ eps*|T|/d
                    if not (rel_diff(v2, val) <= max(TOL_INV, 4e-13 * float(np.abs(tr).max()))):
                        R.violation(f'chi2/{path}/changes-under-rigid-motion', d,
                                    f'original={val!r} moved={v2!r}')
                    elif v2 < 0:
                        R.violation(f'chi2/{path}/negative', d, v2)
            # -- ONE calculator evaluated on a sequence of configurations: every value must equal the
            #    reference whatever was evaluated before (the calculator caches masks at construction);
            #    the sequence contains a configuration whose atoms coincide exactly with fixed atoms
            if only in (None, 'seq') and e == combos[0][1]:
                coinc = me.copy()
                m = min(n1, n2)
                coinc[:m] = fixed[:m]
                order = [mobs[x] for x in range(N_CONSTR, N_CONSTR + N_EVAL)] + [coinc]
                order = order + order[::-1] + [order[0]]
                d = dict(base, sub='seq')
                try:
                    calc = Chi2Calculator(fixed.copy(), mc.copy(), [list(r) for r in restr])
                    buf = order[0].copy()        # ONE array object, overwritten in place before each evaluation of the second half
                    held = []                    # the values AS RETURNED, kept by the caller (a scan) and read again at the end
                    for step, cfg in enumerate(order):
                        if step >= len(order) // 2:      # second half of the sequence: always the same object
                            buf[:] = cfg
                            raw = calc(buf)
                        else:
                            raw = calc(cfg.copy())
                        got = float(raw)
                        sr2, sn2, k2, _ = ref_parts(fixed, cfg, restr)
                        w2 = (sr2 + sn2) * 1.1 ** k2
                        held.append((step, raw, w2))
                        R.case(dict(d, step=step), nontrivial=True, cls=tag + '/sequence')
                        if not np.isfinite(got) or got < 0:
                            R.violation(f'chi2/{path}/sequence/negative-or-non-finite', d, f'step {step}: {got!r}')
                            break
                        if abs(got - w2) > TOL_REF * max(abs(w2), 1e-18):
                            R.violation(f'chi2/{path}/sequence/differs-from-reference', d,
                                        f'step {step} of one calculator: {got!r} vs reference {w2!r}')
                            break
                    else:
                        for step, raw, w2 in held:
                            if abs(float(raw) - w2) > TOL_REF * max(abs(w2), 1e-18):
                                R.violation(f'chi2/{path}/sequence/value-returned-earlier-changed-by-a-later-evaluation', d,
                                            f'value returned at step {step} now reads {float(raw)!r}, reference {w2!r}')
                                break
                except Exception as exc:
                    R.violation(f'chi2/{path}/exception', d, repr(exc))
            # -- the same inputs in other legal forms: integer-typed coordinate arrays at construction (then a
            #    non-integer configuration is evaluated), and a restraint list given as an integer ndarray that the
            #    caller re-uses (overwrites) after the calculator has been built
            if only in (None, 'forms') and (c, e) == combos[0]:
                d = dict(base, sub='forms')
                try:
                    fi = np.round(fixed * 1000).astype(np.int64)
                    mi = np.round(mc * 1000).astype(np.int64)
                    cfg = me * 1000.0
                    got = float(Chi2Calculator(fi, mi, [list(r) for r in restr])(cfg.copy()))
                    a, b, kk, _ = ref_parts(fi.astype(float), cfg, restr)
                    w = (a + b) * 1.1 ** kk
                    R.case(dict(d, form='int-coordinates'), nontrivial=True, cls=tag + '/int-coordinates')
                    if not (rel_diff(got, w) <= 1e-9):
                        R.violation(f'chi2/{path}/integer-coordinates-at-construction/differs-from-reference', d,
                                    f'{got!r} vs {w!r}')
                    if restr:
                        arr = np.array(restr, dtype=int)
                        calc = Chi2Calculator(fixed.copy(), mc.copy(), arr)
                        arr[:, 1] = (arr[:, 1] + 1) % n2          # the caller relabels ITS array for the next molecule
                        arr[:, 0] = arr[::-1, 0]
                        got = float(calc(me.copy()))
                        R.case(dict(d, form='restraints-ndarray-reused'), nontrivial=True, cls=tag + '/restraints-ndarray')
                        if not (rel_diff(got, want) <= TOL_REF):
                            R.violation(f'chi2/{path}/restraint-array-reused-by-caller/differs-from-reference', d,
                                        f'{got!r} vs {want!r}')
                except Exception as exc:
                    R.violation(f'chi2/{path}/exception', d, repr(exc))
            # -- consistent relabelling of atoms and restraints ---------------------
            if only in (None, 'perm'):
                plist = [case['perm']] if 'perm' in case else perms
                for pf, pm in plist:
                    d = dict(base, sub='perm', perm=[list(pf), list(pm)])
                    rs = [[pf[i], pm[j]] for i, j in restr]
                    try:
                        v2 = evaluate(relabel(fixed, pf), relabel(mc, pm), relabel(me, pm), rs)
                    except Exception as exc:
                        R.case(d, nontrivial=True, outcome='exception')
                        R.violation(f'chi2/{path}/exception', d, repr(exc))
                        continue
                    R.case(d, nontrivial=want > 0)
                    if not (rel_diff(v2, val) <= TOL_INV):
                        R.violation(f'chi2/{path}/changes-under-relabelling', d,
                                    f'original={val!r} relabelled={v2!r}')


    def _neartie(self, case, R, seed):
        """Every unrestrained fixed atom has TWO mobile atoms almost equally near (squared distances d and d(1+gap)):
        exactly one of them is its nearest atom, the other counts as far unless something else uses it."""
        from gaddlemaps._backend import Chi2Calculator
        n1, n2, gap, restr = case['n1'], case['n2'], case['gap'], [list(r) for r in case['restr']]
        fixed = np.array([[0.0, 0.0, 0.0], [5.0, 0.5, -0.25], [-4.0, 6.0, 1.5]])[:n1]
        dirs = np.array([[1.0, 0.0, 0.0], [0.0, 1.0, 0.0], [0.0, 0.0, 1.0], [0.6, 0.0, 0.8]])
        for owner in range(n1):
            # mobile atoms 0 and 1 sit at distances r and r*sqrt(1+gap) from fixed atom `owner`, the others further away
            r = 0.75
            mob = np.array([fixed[owner] + dirs[j] * r * (1.0, np.sqrt(1.0 + gap), 1.7, 2.3)[j] for j in range(n2)])
            constr = mob[::-1] * 0.5 + 1.0            # the calculator is built with another configuration
            d = dict(case, owner=owner)
            try:
                got = float(Chi2Calculator(fixed.copy(), constr.copy(), [list(x) for x in restr])(mob.copy()))
            except Exception as exc:
                R.case(d, nontrivial=True, outcome='exception', cls='neartie')
                R.violation('chi2/neartie/exception', d, repr(exc))
                continue
            a, b, k, _ = ref_parts(fixed, mob, restr)
            want = (a + b) * 1.1 ** k
            R.case(d, nontrivial=True, outcome=f'k={k}', cls=f'neartie/gap{gap:g}')
            if not rel_diff(got, want) <= TOL_REF:
                R.violation('chi2/neartie/differs-from-reference', d,
                            f'calculator={got!r} reference={want!r} (k={k}, relative gap of the two nearest {gap:g})')


CHECK = C08()
