"""C14 - incomplete or truncated .gro output is never accepted as a valid system.

Crash points: the real writer runs over the recording in-memory `open` (mcx.seams.FileStore);
the operation log is the exact sequence of write(offset, text) / seek / close.  For every
history of the product  records x velocities x count mode x box x name class  the file image
after EVERY prefix of the log and after every byte prefix of every appending write is handed
to the real reader.  Truncation: every byte prefix of every complete generated file and of
the shipped .gro files.  Oracle (from the statement): an image is rejected (any exception)
unless it contains the complete atom block and at least the first byte of the box line; an
accepted image returns exactly the atom records of the complete file.
"""
import contextlib
import glob
import os

from mcx import seams
from mcx.build import MemFile, Scratch, generic_points
from mcx.core import Check
from mcx.ref import gro as ref

COUNTS = ('right', 'none', 'large', 'small')
BOXES = {'rect': [3.0, 4.5, 5.25],
         'tric': [[5.1, 0.0, 0.0], [0.4, 6.2, 0.0], [-0.6, 0.7, 7.3]]}
# name classes: what an atom line looks like to a reader that mistakes it for a box line
#   alpha          residue/atom names with letters (the first token of the line is not a number)
#   digits         digit-only names: the line splits into 6 (9 with velocities) numeric tokens
#   digits-merged  five-digit names and numbers, x filling its field: 3 numeric tokens
NAME_CLASSES = ('alpha', 'digits', 'digits-merged')
BIG = 10 * 1024          # shipped files above this size: dense ends + every 97th byte (quick tier)
STRIDE = 97
CHUNK = 4000             # truncation offsets per shipped-file case


def records_for(n, vel, names, seed):
    pos = (generic_points(max(n, 1), seed, tag=141, min_sin=0.0) * 4.0).tolist()
    vv = (generic_points(max(n, 1), seed, tag=142, min_sin=0.0) * 1.5).tolist()
    out = []
    for j in range(n):
        if names == 'alpha':
            r = (1 + j // 3, 'RES', 'A%d' % (j % 100), j + 1) + tuple(pos[j])
        elif names == 'digits':
            r = (1 + j // 3, '7', str(8 + j % 2), j + 1) + tuple(pos[j])
        else:
            r = (1 + j // 3, '77777', '88888', 10000 + j, 1000.0 + j, pos[j][1], pos[j][2])
        if vel:
            r += tuple(vv[j])
        out.append(r)
    return out


def declared_count(n, count):
    return {'right': n, 'large': n + 1, 'small': n - 1, 'none': None}[count]


def feed(g, recs, mode, stage=None):
    """Hand the records to the writer: one writeline() per record, ONE writelines() call with the whole list, or
    writelines() in blocks of two records."""
    recs = list(recs)
    if mode == 'bulk':
        g.writelines(recs)
    elif mode == 'blocks':
        for i in range(0, len(recs), 2):
            g.writelines(recs[i:i + 2])
    else:
        for j, r in enumerate(recs):
            if stage is not None:
                stage[0] = 'writeline %d' % j
            g.writeline(r)


def run_writer(path, hist, records):
    """Drive the real writer; returns (stage, exception) if it raised, else None."""
    from gaddlemaps.parsers import GroFile
    g = GroFile(path, 'w')
    stage = 'setup'
    try:
        g.comment = 'crash images'
        g.box_matrix = BOXES[hist['box']]
        dec = declared_count(hist['n'], hist['count'])
        if dec is not None:
            g.natoms = dec
        st = ['feed']
        stage = st
        feed(g, records, hist.get('wmode', 'lines'), st)
        stage = 'close'
        g.close()
        return None
    except Exception as e:
        with contextlib.suppress(Exception):
            g._file.close()
        return (stage[0] if isinstance(stage, list) else stage), e


def abandoned_image(hist, records, k):
    """The writer writes k records and is then dropped without close() (an exception unwinding past it,
    the program ending): the file content once the object has been garbage collected."""
    import gc
    import gaddlemaps.parsers as P
    from gaddlemaps.parsers import GroFile
    store = seams.FileStore()
    with store.installed(P):
        g = GroFile('mem.gro', 'w')
        try:
            g.comment = 'crash images'
            g.box_matrix = BOXES[hist['box']]
            dec = declared_count(hist['n'], hist['count'])
            if dec is not None:
                g.natoms = dec
            feed(g, records[:k], hist.get('wmode', 'lines'))
        except Exception:
            pass
        del g
        gc.collect()
    return store.data.get('mem.gro', '')


def bulk_failed_image(hist, records, k):
    """writelines() is handed a source of records that fails after k of them; the caller does not close the
    writer (the exception travels up): the file content once the writer is gone."""
    import gc
    import gaddlemaps.parsers as P
    from gaddlemaps.parsers import GroFile

    def source():
        for r in records[:k]:
            yield r
        raise RuntimeError('record source failed')
    store = seams.FileStore()
    with store.installed(P):
        g = GroFile('mem.gro', 'w')
        try:
            g.comment = 'crash images'
            g.box_matrix = BOXES[hist['box']]
            dec = declared_count(hist['n'], hist['count'])
            if dec is not None:
                g.natoms = dec
            g.writelines(source())
        except Exception:
            pass
        image_alive = store.data.get('mem.gro', '')
        del g
        gc.collect()
    return image_alive, store.data.get('mem.gro', '')


def read_while_writer_alive(path, hist, records, k):
    """A writer on a REAL path has written k records (flushed) and is still referenced when the path is opened for
    reading - by the same process.  Returns the reader's verdict and the content of the path afterwards."""
    from gaddlemaps.parsers import GroFile
    if os.path.exists(path):
        os.remove(path)
    g = GroFile(path, 'w')
    try:
        g.comment = 'crash images'
        g.box_matrix = BOXES[hist['box']]
        dec = declared_count(hist['n'], hist['count'])
        if dec is not None:
            g.natoms = dec
        feed(g, records[:k], hist.get('wmode', 'lines'))
        g._file.flush()
    except Exception:
        pass
    try:
        rd = GroFile(path)
        try:
            verdict = ('ok', [tuple(r) for r in rd.readlines()])
        finally:
            rd.close()
    except Exception as e:
        verdict = ('raise', type(e).__name__)
    image = ''
    if os.path.exists(path):
        with open(path, newline='') as fh:
            image = fh.read()
    try:
        g._file.close()
    except Exception:
        pass
    return verdict, image


def abandoned_over_existing(path, hist, records, k, complete_text):
    """Non-initial state on a REAL path: it holds a complete file; a new writer is opened on it, writes k records
    and is dropped without close().  Returns the content of the path afterwards."""
    import gc
    from gaddlemaps.parsers import GroFile
    with open(path, 'w', newline='') as fh:
        fh.write(complete_text.replace('crash images', 'older output', 1))     # the output of an earlier run
    g = GroFile(path, 'w')
    try:
        g.comment = 'crash images'
        g.box_matrix = BOXES[hist['box']]
        dec = declared_count(hist['n'], hist['count'])
        if dec is not None:
            g.natoms = dec
        feed(g, records[:k], hist.get('wmode', 'lines'))
        g._file.flush()
    except Exception:
        pass
    del g
    gc.collect()
    with open(path, newline='') as fh:
        return fh.read()


def apply_write(data, pos, text):
    if pos > len(data):
        data = data + '\0' * (pos - len(data))
    return data[:pos] + text + data[pos + len(text):]


def crash_images(ops):
    """(kind, op index, byte count, image): kind 'op' = after a whole prefix of the log,
    'byte' = an appending write applied partially, 'torn' = an overwriting write applied
    partially (outside the statement)."""
    data = ''
    yield 'op', 0, None, data
    for i, op in enumerate(ops):
        if op[0] == 'write':
            pos, text = op[1], op[2]
            kind = 'byte' if pos >= len(data) else 'torn'
            for t in range(1, len(text)):
                yield kind, i, t, apply_write(data, pos, text[:t])
            data = apply_write(data, pos, text)
        yield 'op', i + 1, None, data


def light_crash_images(ops):
    """Operation-granularity images only (for long histories)."""
    data = ''
    yield 'op', 0, None, data
    for i, op in enumerate(ops):
        if op[0] == 'write':
            data = apply_write(data, op[1], op[2])
        yield 'op', i + 1, None, data


def one_crash_image(ops, kind, i, t):
    if kind == 'op':
        return seams.FileStore.image(ops, i)
    return seams.FileStore.image(ops, i, t)


def read_image(image):
    """The real reader on an in-memory image: ('ok', records) or ('raise', exception name)."""
    from gaddlemaps.parsers import GroFile
    try:
        g = GroFile(MemFile(image, 'image.gro'))
        return 'ok', [tuple(r) for r in g.readlines()]
    except Exception as e:
        return 'raise', type(e).__name__


def read_real_file(path, image):
    from gaddlemaps.parsers import GroFile
    with open(path, 'w', newline='') as fh:
        fh.write(image)
    try:
        g = GroFile(path)
        try:
            return 'ok', [tuple(r) for r in g.readlines()]
        finally:
            g.close()
    except Exception as e:
        return 'raise', type(e).__name__


def shipped_files():
    import gaddlemaps
    d = os.path.join(os.path.dirname(gaddlemaps.__file__), 'data')
    return [os.path.basename(p) for p in sorted(glob.glob(os.path.join(d, '*.gro')))
            if os.path.getsize(p) > 0]


def shipped_text(name):
    import gaddlemaps
    with open(os.path.join(os.path.dirname(gaddlemaps.__file__), 'data', name), newline='') as fh:
        return fh.read()


def truncation_offsets(text, tier):
    """Offsets k of the images text[:k] (k = len(text) is the complete file)."""
    n = len(text)
    if tier == 'thorough' or n <= BIG:
        return list(range(n + 1))
    starts = [0]
    for i, c in enumerate(text):
        if c == '\n':
            starts.append(i + 1)
    head = starts[3] if len(starts) > 3 else n          # end of the first three lines
    nl = starts[:-1] if text.endswith('\n') else starts
    tail = nl[-3] if len(nl) >= 3 else 0                # start of the last three lines
    ks = set(range(0, head + 1)) | set(range(tail, n + 1)) | set(range(head, tail, STRIDE))
    return sorted(ks)


class C14(Check):
    pid = 'C14'
    level = 'fault_enumeration'
    rule = ('case = one file image handed to the real reader: (history, operation-log prefix) or (history, '
            'write, byte count) or (complete file, truncation offset); history = (records, velocities, count '
            'declared right/too large/too small/not declared, box, name class); distinct by descriptor; '
            'non-trivial = the image is neither empty nor the complete file')
    technique = ('crash-point enumeration: real writer over a recording open(), every prefix of the operation log and '
                 'every byte prefix of each appending write, the writer object abandoned (dropped and garbage collected '
                 'without close) after every number of records, plus every byte truncation of complete generated and '
                 'shipped files, each image read by the real reader')
    level_text = ('every crash point of the writer at operation granularity (and byte granularity inside appending writes) '
                  'for every history of the stated product, the file left by a writer abandoned without close() after every number '
                  'of records, and every byte-level truncation of every complete generated '
                  'file and of the 14 non-empty shipped files, are executed on the real reader; a statement about that '
                  'finite set of histories and files')
    level_note = ('trusted: the in-memory file seam (its final content is compared with a real file written by the same '
                  'history, and the reader verdicts on operation-level images with a real file, in every run), the reference '
                  'reader that supplies the complete file\'s records; torn overwriting writes (partial count back-fill) are '
                  'outside the statement and only counted; quick tier samples nothing but uses a stride of 97 bytes in the '
                  'interior of shipped files > 10 kB (dense on the first and last three lines), thorough uses every byte')
    assumptions = ['a crash leaves a prefix of the operation log applied, plus possibly a byte prefix of the next '
                   'appending write (no reordering, no torn overwrite - those are counted separately)',
                   'a declared count that is too small/too large makes the writer raise; the file left behind '
                   'is a crash image',
                   'rejection = any exception from GroFile(image) or readlines()']
    _dir = None

    def run_unit(self, unit, tier, seed):
        with Scratch() as d:
            self._dir = d
            try:
                return super().run_unit(unit, tier, seed)
            finally:
                self._dir = None

    @contextlib.contextmanager
    def _path(self):
        if self._dir:
            yield os.path.join(self._dir, 'c14.gro')
        else:
            with Scratch() as d:
                yield os.path.join(d, 'c14.gro')

    # -- the space -------------------------------------------------------------------------------
    def units(self, tier, seed):
        sizes = (0, 1, 2, 3, 4, 9, 10, 12, 99, 100, 120) if tier == 'thorough' else (0, 1, 2, 3, 4, 12)
        files = shipped_files()
        self.bounds = {'records': list(sizes), 'velocities': [0, 1], 'count': list(COUNTS),
                       'box': list(BOXES), 'name_classes': list(NAME_CLASSES),
                       'shipped_files': files,
                       'shipped_big_file_rule': ('every byte' if tier == 'thorough' else
                                                 f'> {BIG} B: first/last 3 lines dense, every {STRIDE}th byte between')}
        u = []
        for n in sizes:
            for vel in (0, 1):
                for count in COUNTS:
                    if n == 0 and count == 'small':
                        continue
                    hs = [{'k': 'hist', 'n': n, 'vel': vel, 'count': count, 'box': box, 'names': names}
                          for box in BOXES for names in (NAME_CLASSES if n else ('alpha',))]
                    if n >= 12:
                        u += [{'k': 'hists', 'h': [h]} for h in hs]
                    else:
                        u.append({'k': 'hists', 'h': hs})
        # the records handed over by ONE writelines() call / by writelines() in blocks of two (short histories)
        self.bounds['writer_modes'] = {'lines': 'every history', 'bulk, blocks': 'n in 1..4, names alpha'}
        for n in (1, 2, 3, 4):
            for vel in (0, 1):
                for count in COUNTS:
                    if not (n == 0 and count == 'small'):
                        u.append({'k': 'hists', 'h': [{'k': 'hist', 'n': n, 'vel': vel, 'count': count, 'box': box,
                                                       'names': 'alpha', 'wmode': wm}
                                                      for box in BOXES for wm in ('bulk', 'blocks')]})
        # long histories, crash points at operation granularity only (every record boundary and every step of close):
        # a writer that checkpoints its output every so many records must not leave an acceptable file there
        big = (1500, 2500, 999, 1001) if tier == 'thorough' else (1500,)
        self.bounds['records_light'] = list(big)
        for n in big:
            for count in ('none', 'right'):
                u.append({'k': 'hists', 'h': [{'k': 'hist', 'n': n, 'vel': 0, 'count': count, 'box': 'rect',
                                               'names': 'alpha', 'light': 1}]})
        for f in files:
            ks = truncation_offsets(shipped_text(f), tier)
            for a in range(0, len(ks), CHUNK):
                u.append({'k': 'shipped', 'file': f, 'part': [a, min(a + CHUNK, len(ks))]})
        return u

    def cases(self, unit, tier, seed):
        if unit['k'] == 'hists':
            for h in unit['h']:
                yield h
        else:
            yield dict(unit, tier=tier)

    # -- one case --------------------------------------------------------------------------------
    def check_case(self, case, R, seed):
        if case['k'] == 'hist':
            self._history(case, R, seed)
        else:
            self._shipped(case, R)

    def _judge(self, R, desc, image, complete, final, expected, box_offset, sig_prefix, cls, info_only=False,
               given=None, must_reject=False):
        verdict, val = given if given is not None else read_image(image)
        if must_reject and verdict != 'raise':
            # close() has not even been called on the writer: whatever the path holds, it is "the partial file"
            R.case(desc, nontrivial=True, outcome='ACCEPTED before close() was called', cls=cls)
            R.violation(sig_prefix + 'accepted-before-close-was-called', desc,
                        f'image of {len(image)} chars: {val!r}'[:400] + ' | tail ' + repr(image[-120:]))
            return verdict
        has_box = bool(complete and len(image) > box_offset and image[:box_offset] == final[:box_offset])
        if info_only:
            R.add('torn_backfill_images')
            if verdict == 'ok':
                R.add('torn_backfill_accepted')
                if not (has_box and val == expected):
                    R.add('torn_backfill_accepted_incomplete')
            return verdict
        sig = None
        if verdict == 'raise':
            out = 'rejected (box present)' if has_box else 'rejected (no box line)'
        elif not has_box:
            sig, out = sig_prefix + 'accepted-without-box', 'ACCEPTED without box line'
        elif val != expected:
            sig, out = sig_prefix + 'accepted-with-different-records', 'ACCEPTED with different records'
        else:
            out = 'accepted, records of the complete file'
        R.case(desc, nontrivial=bool(image) and not (complete and image == final), outcome=out, cls=cls)
        if sig:
            R.violation(sig, desc, f'image of {len(image)} chars (box line starts at '
                        f'{box_offset if complete else "n/a"}): {val!r}'[:400] + ' | tail ' + repr(image[-120:]))
        return verdict

    def _history(self, case, R, seed):
        import gaddlemaps.parsers as P
        n, count, names = case['n'], case['count'], case['names']
        records = records_for(n, case['vel'], names, seed)
        store = seams.FileStore()
        with store.installed(P):
            werr = run_writer('mem.gro', case, records)
        ops = store.ops.get('mem.gro', [])
        final = store.data.get('mem.gro', '')
        complete = False
        expected, box_offset = None, None
        if werr is None:
            try:
                r = ref.ref_read_gro_full(final)
                complete, expected, box_offset = True, r['records'], r['box_offset']
            except ref.GroFormatError:
                complete = False
        group = 'digit-names/' if names.startswith('digits') else ''
        sigp = f'crash/count-{count}/{group}'
        cls = f'count-{count}/{names}' + ('/' + case['wmode'] if case.get('wmode') else '')
        only = case.get('img')
        if only is None:
            R.add('histories')
            R.add('histories_writer_raised' if werr else 'histories_completed')
            # the seam writes what a real file would contain
            with self._path() as path:
                rerr = run_writer(path, case, records)
                real = ''
                if os.path.exists(path):          # a writer given no record may leave no file at all
                    with open(path, newline='') as fh:
                        real = fh.read()
                if real != final or (rerr is None) != (werr is None):
                    R.violation('harness/recording-file-differs-from-real-file', case,
                                (real[-200:], final[-200:], repr(rerr), repr(werr)))
                if complete:
                    v = read_image(final)
                    R.add('complete_files')
                    if v != ('ok', expected):
                        R.add('complete_files_not_read_back')      # C13's business, exposed here
            for kind, i, t, image in (light_crash_images(ops) if case.get('light') else crash_images(ops)):
                desc = dict(case, img=[kind, i, t])
                if n <= 4 and image != one_crash_image(ops, kind, i, t):
                    R.violation('harness/image-builder-differs-from-filestore', desc, '')
                verdict = self._judge(R, desc, image, complete, final, expected, box_offset, sigp,
                                      f'crash-{kind}/' + cls, info_only=(kind == 'torn'))
                if kind == 'op' and n <= 2:
                    with self._path() as path:
                        rv = read_real_file(path, image)
                    if rv[0] != verdict:
                        R.violation('harness/memfile-verdict-differs-from-real-file', desc, (rv, verdict))
            if n <= 12:
                for k in range(n + 1):
                    image = abandoned_image(case, records, k)
                    if not (complete and image == final):
                        self._judge(R, dict(case, img=['abandon', k, None]), image, complete, final, expected,
                                    box_offset, 'abandoned-writer/', 'abandoned/' + cls)
            if n <= 12:
                for k in range(n + 1):
                    for when, image in zip(('bulk-failed', 'bulk-failed-gone'), bulk_failed_image(case, records, k)):
                        if not (complete and image == final):
                            self._judge(R, dict(case, img=[when, k, None]), image, complete, final, expected,
                                        box_offset, 'bulk-write-failed/', 'bulk-failed/' + cls)
            if n <= 4:
                with self._path() as path:
                    for k in range(n + 1):
                        verdict, image = read_while_writer_alive(path, case, records, k)
                        self._judge(R, dict(case, img=['alive', k, None]), image, complete, final, expected,
                                    box_offset, 'read-while-writer-alive/', 'writer-alive/' + cls, given=verdict,
                                    must_reject=True)
            if complete and n <= 4:
                with self._path() as path:
                    for k in range(n + 1):
                        image = abandoned_over_existing(path, case, records, k, final)
                        if image != final:
                            self._judge(R, dict(case, img=['abandon-over', k, None]), image, True, final, expected,
                                        box_offset, 'abandoned-writer-over-existing-file/', 'abandoned-over/' + cls,
                                        given=read_real_file(path, image))
            if complete and not case.get('light'):
                for k in range(len(final) + 1):
                    self._judge(R, dict(case, img=['trunc', k, None]), final[:k], True, final, expected,
                                box_offset, 'truncation/generated/', 'trunc/' + cls)
            if complete and n <= 4:
                self._over_existing(case, R, ops, final, expected, box_offset, cls)
        elif only[0] == 'over':
            self._over_existing(case, R, ops, final, expected, box_offset, cls, only_i=only[1])
        else:
            kind, i, t = only
            if kind in ('bulk-failed', 'bulk-failed-gone'):
                self._judge(R, case, bulk_failed_image(case, records, i)[kind == 'bulk-failed-gone'], complete, final,
                            expected, box_offset, 'bulk-write-failed/', 'bulk-failed/' + cls)
            elif kind == 'alive':
                with self._path() as path:
                    verdict, image = read_while_writer_alive(path, case, records, i)
                    self._judge(R, case, image, complete, final, expected, box_offset,
                                'read-while-writer-alive/', 'writer-alive/' + cls, given=verdict, must_reject=True)
            elif kind == 'abandon-over':
                with self._path() as path:
                    image = abandoned_over_existing(path, case, records, i, final)
                    self._judge(R, case, image, True, final, expected, box_offset,
                                'abandoned-writer-over-existing-file/', 'abandoned-over/' + cls,
                                given=read_real_file(path, image))
            elif kind == 'abandon':
                self._judge(R, case, abandoned_image(case, records, i), complete, final, expected, box_offset,
                            'abandoned-writer/', 'abandoned/' + cls)
            elif kind == 'trunc':
                self._judge(R, case, final[:i], complete, final, expected, box_offset,
                            'truncation/generated/', 'trunc/' + cls)
            else:
                self._judge(R, case, one_crash_image(ops, kind, i, t), complete, final, expected,
                            box_offset, sigp, f'crash-{kind}/' + cls, info_only=(kind == 'torn'))

    def _over_existing(self, case, R, ops, final, expected, box_offset, cls, only_i=None):
        """Non-initial state: the output path already holds a complete file that this process has
        read; the writer is re-run on the same path and crashes.  Each crash image is written over
        the same real path and opened again (nothing remembered from the earlier read may help)."""
        with self._path() as path:
            for kind, i, t, image in crash_images(ops):
                if kind != 'op' or (only_i is not None and i != only_i):
                    continue
                first = read_real_file(path, final)
                if first != ('ok', expected):
                    R.add('complete_files_not_read_back')
                got = read_real_file(path, image)
                self._judge(R, dict(case, img=['over', i, None]), image, True, final, expected, box_offset,
                            'crash-over-existing-file/', 'crash-over-existing/' + cls, given=got)

    def _shipped(self, case, R):
        text = shipped_text(case['file'])
        r = ref.ref_read_gro_full(text)
        expected, box_offset = r['records'], r['box_offset']
        if 'k_off' in case:
            ks = [case['k_off']]
        else:
            a, b = case['part']
            ks = truncation_offsets(text, case['tier'])[a:b]
            if a == 0:
                R.add('complete_files')
                if read_image(text) != ('ok', expected):
                    R.add('complete_files_not_read_back')
        for k in ks:
            desc = {'k': 'shipped', 'file': case['file'], 'tier': case['tier'], 'k_off': k}
            self._judge(R, desc, text[:k], True, text, expected, box_offset, 'truncation/shipped/',
                        'shipped/' + case['file'])


CHECK = C14()
