"""C04 - applying an exchange map is pure, history-independent and species-checked.

Explicit-state BFS over call/mutation histories on ONE real ExchangeMap.  After every
event: a returned molecule must equal, bit for bit, what a freshly built map (fresh
files, fresh objects) returns for the argument's current coordinates; the coordinates of
every argument, of both construction molecules and of every previously returned molecule
must be unchanged unless the event explicitly mutated that very object; rejected
arguments raise TypeError and leave the map usable.
"""
import numpy as np

from mcx import bfs
from mcx.build import MemFile, generic_points, generic_rotations, gro_text, itp_text
from mcx.core import Check
from mcx.enum import de_bruijn_linear

PAIRS = {
    # name: (ref atoms, ref edges, tgt atoms, tgt edges)
    'chain4_to_6': ([('B1', 'REF', 1), ('B2', 'REF', 1), ('B3', 'REF', 1), ('B4', 'REF', 1)],
                    [(0, 1), (1, 2), (2, 3)],
                    [(f'C{i + 1}', 'TGT', 1) for i in range(6)], [(i, i + 1) for i in range(5)]),
    # the first two target atoms lie EXACTLY on the two anchors of the reference (a bead placed on an atom)
    'onanchor4_to_3': ([('B1', 'REF', 1), ('B2', 'REF', 1), ('B3', 'REF', 1), ('B4', 'REF', 1)],
                       [(0, 1), (1, 2), (2, 3)],
                       [('C1', 'TGT', 1), ('C2', 'TGT', 1), ('C3', 'TGT', 1)], [(0, 1), (1, 2)]),
    'branch5_to_3': ([('B1', 'REF', 1), ('B2', 'REF', 1), ('B3', 'REF', 1), ('B4', 'REF', 1), ('B5', 'REF', 1)],
                     [(0, 1), (1, 2), (1, 3), (3, 4)],
                     [('C1', 'TGT', 1), ('C2', 'TGT', 1), ('C3', 'TGT', 1)], [(0, 1), (1, 2)]),
    'res3_to_res3': ([('B1', 'RA', 1), ('B2', 'RB', 2), ('B3', 'RB', 2), ('B4', 'RC', 3)],
                     [(0, 1), (1, 2), (2, 3)],
                     [('C1', 'TA', 1), ('C2', 'TA', 1), ('C3', 'TB', 2), ('C4', 'TC', 3), ('C5', 'TC', 3)],
                     [(0, 1), (1, 2), (2, 3), (3, 4)]),
    # exactly collinear reference (dyadic coordinates along x): the frames use the library's arbitrary-normal
    # fallback, which must be the same normal on every call and in a fresh map
    'collinear4_to_3': ([('B1', 'REF', 1), ('B2', 'REF', 1), ('B3', 'REF', 1), ('B4', 'REF', 1)],
                        [(0, 1), (1, 2), (2, 3)],
                        [('C1', 'TGT', 1), ('C2', 'TGT', 1), ('C3', 'TGT', 1)], [(0, 1), (1, 2)]),
    # target with two ADJACENT residues of the same name; argument 1 carries one number on both of its residues
    # reference and target are the SAME species and share one topology object (the target is reference.copy()): an
    # identity-like map, legal for the constructor
    'self_to_self': ([('B1', 'RA', 1), ('B2', 'RA', 1), ('B3', 'RB', 2), ('B4', 'RB', 2)],
                     [(0, 1), (1, 2), (2, 3)],
                     [('B1', 'RA', 1), ('B2', 'RA', 1), ('B3', 'RB', 2), ('B4', 'RB', 2)], [(0, 1), (1, 2), (2, 3)]),
    'res2_to_res2same': ([('B1', 'RA', 1), ('B2', 'RA', 1), ('B3', 'RB', 2), ('B4', 'RB', 2)],
                         [(0, 1), (1, 2), (2, 3)],
                         [('C1', 'TT', 1), ('C2', 'TT', 1), ('C3', 'TT', 2)], [(0, 1), (1, 2)]),
}
COLLINEAR_BASE = np.array([[0.0, 0.25, -0.5], [0.25, 0.25, -0.5], [0.625, 0.25, -0.5], [1.0, 0.25, -0.5]])
CUBE3 = (np.array([[0.0, -1.0, 0.0], [1.0, 0.0, 0.0], [0.0, 0.0, 1.0]]),
         np.array([[0.0, 0.0, 1.0], [0.0, 1.0, 0.0], [-1.0, 0.0, 0.0]]),
         np.array([[1.0, 0.0, 0.0], [0.0, 0.0, -1.0], [0.0, 1.0, 0.0]]))
EVENTS = [['call', 0], ['call', 1], ['call', 2], ['call', 'ref'], ['call_wrong_species'], ['call_target_itself'],
          ['call_ndarray'], ['call_same_name_longer'], ['call_same_name_shorter'],
          ['mut_ref_coords'], ['mut_tgt_coords'], ['mut_arg_coords', 1], ['mut_last_result'],
          ['respecies_arg', 1], ['call_list', 'empty'], ['call_list', 'two'], ['mut_tgt_resids'],
          ['renumber_arg_big', 1]]
# events explored on the plain chain pair only (keeps the other pairs' history spaces as they were)
EXTRA = [['degen_arg', 1, 'near'], ['degen_arg', 1, 'exact'], ['call_case_name'], ['call_same_name_other_atoms'],
         ['mut_equivalences']]
SCALE = 0.5


def alphabet(pair):
    if pair == 'branch5_to_3':      # its atom 1 has three bonds
        return EVENTS + [['collinear_call', 2]]
    if pair == 'onanchor4_to_3':    # plus the caller's own in-place edits of atom coordinates (`atom.position += d`)
        return EVENTS + [['inplace_arg', 1], ['inplace_ref'], ['inplace_last_result']]
    return EVENTS + EXTRA if pair == 'chain4_to_6' else EVENTS


def _dec(a, d=3):
    return np.array([[float(f'{v:.{d}f}') for v in row] for row in np.asarray(a)])


class World:
    """Fresh real objects: one map, its construction molecules, three arguments."""

    def __init__(self, pair, mode, seed):
        from gaddlemaps import ExchangeMap
        from gaddlemaps.components import System
        ratoms, redges, tatoms, tedges = PAIRS[pair]
        nr, nt = len(ratoms), len(tatoms)
        base = _dec(generic_points(nr, seed, scale=0.6, tag=40 + nr))
        rots = generic_rotations(seed)
        confs = [base]
        for k in range(3):                      # three arguments: moved, rotated and deformed
            jit = _dec(generic_points(nr, seed, scale=0.05, tag=50 + k))
            confs.append(_dec((base - base.mean(axis=0)) @ rots[k].T + np.array([2.0 + k, -1.0, 0.5 * k]) + jit))
        if pair == 'collinear4_to_3':           # exact: axis-permuting rotations and dyadic shifts, no jitter
            base = COLLINEAR_BASE.copy()
            confs = [base] + [base @ CUBE3[k].T + np.array([2.0 + k, -1.0, 0.5 * k]) for k in range(3)]
        nres = len({a[2] for a in ratoms})
        recs = []
        for m, conf in enumerate(confs):
            for i, (an, rn, ri) in enumerate(ratoms):
                rid = ri + 10 * m
                if m == 3:
                    rid = ri          # argument 2 carries exactly the residue numbers the TARGET has at construction
                if pair == 'res2_to_res2same' and m == 2:
                    rid = 33              # argument 1 carries the SAME number on both of its (differently named) residues
                recs.append((rid, rn, an, i + 1 + nr * m, conf[i]))
        itp_ref = itp_text('REFMOL', ratoms, redges)
        self.syst = System(MemFile(gro_text(recs), 'sys.gro'), MemFile(itp_ref, 'REFMOL.itp'))
        assert len(self.syst) == 4
        self.ref = self.syst[0]
        if mode == 'shared_top':
            self.args = [self.syst[1], self.syst[2], self.syst[3]]
        else:
            self.args = []
            for m in (1, 2, 3):
                sub = [r for r in recs[m * nr:(m + 1) * nr]]
                s1 = System(MemFile(gro_text(sub), f'a{m}.gro'), MemFile(itp_ref, 'REFMOL.itp'))
                self.args.append(s1[0])
                self._keep = getattr(self, '_keep', []) + [s1]
        tpos = _dec(generic_points(nt, seed, scale=0.7, tag=60 + nt))
        if pair == 'onanchor4_to_3':
            tpos[0], tpos[1] = base[1].copy(), base[2].copy()
        trecs = [(ri, rn, an, i + 1, tpos[i]) for i, (an, rn, ri) in enumerate(tatoms)]
        self.tsys = System(MemFile(gro_text(trecs), 'tgt.gro'), MemFile(itp_text('TGTMOL', tatoms, tedges), 'TGTMOL.itp'))
        self.tgt = self.tsys[0]
        if pair == 'self_to_self':
            self.tgt = self.ref.copy()
            self.tgt.atoms_positions = tpos.copy()
        self._lazy = {}
        self._base, self._ratoms, self._redges, self._nr = base, ratoms, redges, nr
        # argument 2 collides with argument 0 on everything a cache could be keyed on except the
        # conformation: same geometric centre (to rounding), same first atom position is NOT kept
        a0 = self.args[0].atoms_positions
        c0 = a0.mean(axis=0)
        if pair != 'collinear4_to_3':
            self.args[2].atoms_positions = (a0 - c0) @ rots[1].T + c0
        self.map = ExchangeMap(self.ref, self.tgt, SCALE)
        self.results = []
        self.tnames = [a[0] for a in tatoms]
        self.tresnames = []
        for a in tatoms:
            if not self.tresnames or self.tresnames[-1][1] != a[2]:
                self.tresnames.append((a[1], a[2]))
        self.tresnames = [x[0] for x in self.tresnames]
        self.snap()

    # rarely used molecules are built on first use (each costs a System parse)
    @property
    def other(self):
        if 'other' not in self._lazy:
            from gaddlemaps.components import System
            nr, base = self._nr, self._base
            orecs = [(1, 'OTH', f'X{i + 1}', i + 1, base[i] + 0.3) for i in range(nr)]
            osys = System(MemFile(gro_text(orecs), 'oth.gro'),
                          MemFile(itp_text('OTHER', [(f'X{i + 1}', 'OTH', 1) for i in range(nr)], self._redges),
                                  'OTHER.itp'))
            self._lazy['other'] = osys[0]
            self._keep = getattr(self, '_keep', []) + [osys]
            self.snapshot['other'] = self._lazy['other'].atoms_positions.copy()
        return self._lazy['other']

    @property
    def longer(self):
        if 'longer' not in self._lazy:
            ra, nr = self._ratoms, self._nr
            self._lazy['longer'] = self._same_name(ra + [('B9', ra[-1][1], ra[-1][2])], self._redges + [(nr - 1, nr)],
                                                   self._base)
            self.snapshot['longer'] = self._lazy['longer'].atoms_positions.copy()
        return self._lazy['longer']

    @property
    def shorter(self):
        if 'shorter' not in self._lazy:
            self._lazy['shorter'] = self._same_name(self._ratoms[:-1],
                                                    [e for e in self._redges if self._nr - 1 not in e], self._base)
            self.snapshot['shorter'] = self._lazy['shorter'].atoms_positions.copy()
        return self._lazy['shorter']

    @property
    def cased(self):
        """Another species (own topology) whose name differs from the reference species' only in letter case;
        same atoms, residues and bonds."""
        if 'cased' not in self._lazy:
            from gaddlemaps.components import System
            recs = [(ri, rn, an, i + 1, self._base[i] + 0.1) for i, (an, rn, ri) in enumerate(self._ratoms)]
            s = System(MemFile(gro_text(recs), 'cased.gro'),
                       MemFile(itp_text('Refmol', self._ratoms, self._redges), 'Refmol.itp'))
            self._keep = getattr(self, '_keep', []) + [s]
            self._lazy['cased'] = s[0]
            self.snapshot['cased'] = self._lazy['cased'].atoms_positions.copy()
        return self._lazy['cased']

    @property
    def renamed_atoms(self):
        """Another species carrying the SAME molecule name and atom count (residues and bonds too) whose atoms are
        named differently."""
        if 'renamed_atoms' not in self._lazy:
            atoms = [('X' + an[1:], rn, ri) for an, rn, ri in self._ratoms]
            self._lazy['renamed_atoms'] = self._same_name(atoms, self._redges, self._base)
            self.snapshot['renamed_atoms'] = self._lazy['renamed_atoms'].atoms_positions.copy()
        return self._lazy['renamed_atoms']

    def _same_name(self, atoms, edges, base):
        from gaddlemaps.components import System
        pts = np.vstack([base, base[-1:] + 0.2])[:len(atoms)]
        recs = [(ri, rn, an, i + 1, pts[i]) for i, (an, rn, ri) in enumerate(atoms)]
        s = System(MemFile(gro_text(recs), 'same.gro'), MemFile(itp_text('REFMOL', atoms, edges), 'REFMOL.itp'))
        self._keep = getattr(self, '_keep', []) + [s]
        return s[0]

    def tracked(self):
        out = {'ref': self.ref, 'tgt': self.tgt}
        out.update(self._lazy)
        for i, a in enumerate(self.args):
            out[f'arg{i}'] = a
        for i, r in enumerate(self.results):
            if i >= len(self.results) - 8:          # the eight most recently returned molecules
                out[f'result{i}'] = r
        return out

    def snap(self):
        self.snapshot = {k: v.atoms_positions.copy() for k, v in self.tracked().items()}


class C04(Check):
    pid = 'C04'
    level = 'model_checking'
    rule = ('state = history over events {call(arg0|arg1|arg2), call(wrong species), call(the target itself), '
            'call(ndarray), mutate construction reference coordinates, mutate construction target coordinates, mutate '
            'argument 1, mutate the last returned molecule, rename argument 1 to another species (own topology)} on one ExchangeMap; BFS to the stated depth without merging '
            '(every history is a distinct state), oracle after every transition; de Bruijn words of order 2 and 3; '
            'non-trivial = a call event whose result was compared with a freshly built map')
    technique = ('explicit-state breadth-first search over call/mutation histories on the real ExchangeMap with a '
                 'differential oracle (fresh map built from fresh files) after every transition; de Bruijn histories')
    level_text = ('every history up to depth 3 (quick; 2 on the five special-purpose pairs) / 4-5 (thorough; 3 on those) over an 18-event alphabet (23 on the plain chain pair: plus an argument deformed to a near-degenerate / exactly degenerate anchor frame, a call with a species whose name differs only in letter case, one with the same name and size but other atom names, and the caller emptying the dictionary the `equivalences` property returned; 19 on the branched pair: plus an argument whose three-bond anchor is in line with its neighbours; 21 on the pair whose target atoms lie exactly on the reference anchors: plus in-place `atom.position += d` on an argument, on the construction reference and on the last result), on 7 reference/target '
                  'pairs x 2 ways of producing arguments (sharing the species topology as System does / independently '
                  'loaded), is executed on the real map and checked after every event; histories of length 101 and 1002 '
                  'containing every ordered pair / triple of events cover the long-history clause')
    level_note = ('trusted: the builders, and the library code path used to build the *fresh* comparison map (the oracle '
                  'is differential: history-laden object vs fresh object). Velocities of returned molecules are not '
                  'compared (the statement speaks of coordinates, names, residue names, count/order, residue numbers). '
                  'Changing residue numbers of construction molecules is outside the statement (species identity)')
    assumptions = ['reference of >= 3 atoms (premise of the statement)', 'scale factor 0.5',
                   'the pair self_to_self (reference and target share one topology object) carries the open known '
                   'finding same-species-map/call/unexpected-exception (known_findings.json); its violations have '
                   'their own signature prefix',
                   'generic conformations from VERIF_SEED tables']

    MODES = ('shared_top', 'own_top')

    def setup(self, tier, seed):
        self._fresh_cache = {}

    def units(self, tier, seed):
        thorough = tier == 'thorough'
        self.bounds = {'depth': 4 if thorough else 3, 'depth_chain4_shared_top': 5 if thorough else 3,
                       'depth_special_pairs': 3 if thorough else 2,
                       'events': len(EVENTS), 'extra_events_on_chain4_to_6': len(EXTRA), 'de_bruijn_orders': [2, 3]}
        u = []
        for pair in PAIRS:
            for mode in self.MODES:
                depth = self.bounds['depth']
                if pair not in ('chain4_to_6', 'res3_to_res3'):
                    depth -= 1            # the three special-purpose pairs one level shallower
                if pair == 'chain4_to_6' and mode == 'shared_top':
                    depth = self.bounds['depth_chain4_shared_top']
                EV = alphabet(pair)
                if depth >= 5:
                    for i in range(len(EV)):
                        for j in range(len(EV)):
                            u.append({'k': 'bfs', 'pair': pair, 'mode': mode, 'depth': depth, 'first': i, 'second': j})
                    u.append({'k': 'bfs', 'pair': pair, 'mode': mode, 'depth': 2, 'first': None})
                    for order in (2, 3):
                        u.append({'k': 'debruijn', 'pair': pair, 'mode': mode, 'order': order})
                    continue
                for i in range(len(EV)):
                    u.append({'k': 'bfs', 'pair': pair, 'mode': mode, 'depth': depth, 'first': i})
                u.append({'k': 'bfs', 'pair': pair, 'mode': mode, 'depth': 1, 'first': None})
                for order in (2, 3):
                    u.append({'k': 'debruijn', 'pair': pair, 'mode': mode, 'order': order})
        return u

    def cases(self, unit, tier, seed):
        yield unit

    def fresh_result(self, pair, mode, seed, arg_index, coords):
        """What a map built from scratch returns for an argument with these coordinates."""
        key = (pair, mode, seed, arg_index, coords.tobytes())
        if key not in self._fresh_cache:
            w = World(pair, mode, seed)
            arg = w.ref if arg_index == 'ref' else w.args[arg_index]
            arg.atoms_positions = coords.copy()
            out = w.map(arg)
            self._fresh_cache[key] = (out.atoms_positions.copy(), [a.name for a in out], list(out.resnames),
                                      len(out))
        return self._fresh_cache[key]

    def step(self, w, ev, ctxinfo):
        from gaddlemaps.components import Molecule
        pair, mode, seed = ctxinfo
        V = []
        name = ev[0]
        mutated = None
        d = np.array([0.125, -0.25, 0.5])
        try:
            if name == 'call_list':
                # a list / tuple is not a molecule, whatever it holds
                bad = [] if ev[1] == 'empty' else [w.args[0], w.args[2]]
                for seq in (bad, tuple(bad)):
                    try:
                        w.map(seq)
                        V.append((f'call_list_{ev[1]}/accepted', f'{type(seq).__name__} of {len(seq)} molecules was mapped'))
                    except TypeError:
                        pass
                    except Exception as exc:
                        V.append((f'call_list_{ev[1]}/rejected-with-other-than-TypeError', repr(exc)))
            elif name == 'mut_tgt_resids':
                # the construction TARGET is renumbered after the map was built (a later change to a construction
                # molecule): results keep carrying the ARGUMENT's residue numbers
                w.tgt.resids = 7
            elif name == 'renumber_arg_big':
                # residue numbers beyond five digits, set on the coordinate side only (the species is untouched)
                if ev[1] not in getattr(w, 'respecied', ()):
                    for i, r in enumerate(w.args[ev[1]].residues):
                        r.resid = 250001 + i
            elif name == 'respecies_arg':
                # an argument with its OWN topology is turned into another species through the public API
                # (molecule name); from then on the map must reject it.  With a shared topology the event is
                # a no-op (renaming would change the species of the construction reference too)
                if mode == 'own_top':
                    w.args[ev[1]].name = 'OTHERSP'
                    w.respecied = getattr(w, 'respecied', set()) | {ev[1]}
            elif name == 'call' and ev[1] in getattr(w, 'respecied', ()):
                try:
                    w.map(w.args[ev[1]])
                    V.append(('call_after_species_change/accepted', 'argument renamed to another species was mapped'))
                except TypeError:
                    pass
                except Exception as exc:
                    V.append(('call_after_species_change/rejected-with-other-than-TypeError', repr(exc)))
            elif name == 'call':
                arg = w.ref if ev[1] == 'ref' else w.args[ev[1]]
                before_resids = list(arg.resids)
                out = w.map(arg)
                exp_pos, exp_names, exp_resnames, exp_len = self.fresh_result(pair, mode, seed, ev[1],
                                                                              arg.atoms_positions)
                if not isinstance(out, Molecule):
                    V.append(('call/result-not-a-molecule', str(type(out))))
                else:
                    got = out.atoms_positions
                    if got.shape != exp_pos.shape or not np.array_equal(got, exp_pos, equal_nan=True):
                        dm = float(np.abs(got - exp_pos).max()) if got.shape == exp_pos.shape else -1
                        V.append(('call/result-differs-from-fresh-map', f'max coordinate difference {dm:.3e}'))
                    if [a.name for a in out] != exp_names or len(out) != exp_len:
                        V.append(('call/result-atom-names-or-count-not-the-targets', ''))
                    if list(out.resnames) != exp_resnames:
                        V.append(('call/result-residue-names-not-the-targets', str(out.resnames)))
                    if list(out.resids) != before_resids:
                        V.append(('call/result-residue-numbers-not-the-arguments', f'{out.resids} vs {before_resids}'))
                    for k, o in w.tracked().items():
                        if o is out:
                            V.append(('call/result-is-not-a-new-object', k))
                    w.results.append(out)
                    w.snapshot[f'result{len(w.results) - 1}'] = out.atoms_positions.copy()
            elif name == 'collinear_call':
                # the argument is deformed so that an anchor with three or more bonds is exactly in line with its two
                # lowest-numbered bonded atoms (its frame then has an arbitrary normal), and mapped; what is mapped
                # AFTERWARDS is what a fresh map gives
                if ev[1] not in getattr(w, 'respecied', ()):
                    nb = {}
                    for i, j in w._redges:
                        nb.setdefault(i, []).append(j)
                        nb.setdefault(j, []).append(i)
                    hub = min(i for i in nb if len(nb[i]) >= 3)
                    n1, n2 = sorted(nb[hub])[:2]
                    a = w.args[ev[1]]
                    pos = a.atoms_positions
                    pos[n2] = pos[hub] + 1.5 * (pos[hub] - pos[n1])
                    a.atoms_positions = pos
                    w.snapshot[f'arg{ev[1]}'] = a.atoms_positions.copy()
                    return self.step(w, ['call', ev[1]], ctxinfo)
            elif name == 'degen_arg':
                # the argument is deformed so that its highest anchor lies 5e-7 nm from ('near': a finite, well defined
                # frame) or exactly on ('exact': that frame is undefined, the atoms tied to it come out as nan - for a
                # fresh map just the same) its SECOND frame neighbour
                if ev[1] not in getattr(w, 'respecied', ()):
                    nb = {}
                    for i, j in w._redges:
                        nb.setdefault(i, []).append(j)
                        nb.setdefault(j, []).append(i)
                    a0 = max(i for i in nb if len(nb[i]) >= 2)
                    a = w.args[ev[1]]
                    pos = a.atoms_positions
                    pos[sorted(nb[a0])[1]] = pos[a0] + (np.array([3e-7, -4e-7, 0.0]) if ev[2] == 'near' else 0.0)
                    a.atoms_positions = pos
                    mutated = f'arg{ev[1]}'
            elif name == 'call_target_itself' and pair == 'self_to_self':
                pass          # on this pair the target IS a molecule of the reference species: nothing to refuse
            elif name in ('call_wrong_species', 'call_target_itself', 'call_ndarray', 'call_same_name_longer',
                          'call_same_name_shorter', 'call_case_name', 'call_same_name_other_atoms'):
                bad = {'call_wrong_species': lambda: w.other, 'call_target_itself': lambda: w.tgt,
                       'call_case_name': lambda: w.cased, 'call_same_name_other_atoms': lambda: w.renamed_atoms,
                       'call_ndarray': lambda: w.args[0].atoms_positions, 'call_same_name_longer': lambda: w.longer,
                       'call_same_name_shorter': lambda: w.shorter}[name]()
                try:
                    w.map(bad)
                    V.append((f'{name}/accepted', 'no exception'))
                except TypeError:
                    pass
                except Exception as exc:
                    V.append((f'{name}/rejected-with-other-than-TypeError', repr(exc)))
            elif name in ('inplace_arg', 'inplace_ref', 'inplace_last_result'):
                # the caller edits coordinates in place, atom by atom (`atom.position += d`): only that molecule moves
                if name == 'inplace_arg':
                    mol, key = w.args[ev[1]], f'arg{ev[1]}'
                elif name == 'inplace_ref':
                    mol, key = w.ref, 'ref'
                else:
                    mol, key = (w.results[-1], f'result{len(w.results) - 1}') if w.results else (None, None)
                if mol is not None:
                    for atom in mol:
                        atom.position += d
                    mutated = key
            elif name == 'mut_equivalences':
                # the caller post-processes the dictionary the public `equivalences` property handed out (empties its
                # lists, drops its entries): what is mapped afterwards is what a fresh map gives
                eq = w.map.equivalences
                for key in list(eq):
                    if isinstance(eq[key], list):
                        del eq[key][:]
                    del eq[key]
            elif name == 'mut_ref_coords':
                w.ref.move(d)
                mutated = 'ref'
            elif name == 'mut_tgt_coords':
                w.tgt.atoms_positions = w.tgt.atoms_positions[::-1].copy() + d
                mutated = 'tgt'
            elif name == 'mut_arg_coords':
                a = w.args[ev[1]]
                pos = a.atoms_positions
                pos[0] += d                       # a deformation that keeps the geometric centre
                pos[1] -= d
                a.atoms_positions = pos
                mutated = f'arg{ev[1]}'
            elif name == 'mut_last_result':
                if w.results:
                    w.results[-1].move(-d)
                    mutated = f'result{len(w.results) - 1}'
            else:
                raise AssertionError(name)
        except AssertionError:
            raise
        except Exception as exc:
            V.append((f'{name}/unexpected-exception', repr(exc)))
            return V
        for k, o in w.tracked().items():
            now = o.atoms_positions
            if k == mutated:
                w.snapshot[k] = now.copy()
            elif k in w.snapshot and not np.array_equal(now, w.snapshot[k], equal_nan=True):
                V.append((f'{name}/coordinates-of-{k.rstrip("0123456789")}-changed', f'{k}'))
                w.snapshot[k] = now.copy()
        return V

    def check_case(self, case, R, seed):
        pair, mode = case['pair'], case['mode']
        info = (pair, mode, seed)

        def build():
            return World(pair, mode, seed)

        def step(w, ev):
            V = self.step(w, ev, info)
            if pair == 'self_to_self':      # own signatures: what fails on this pair is tracked separately
                V = [('same-species-map/' + sg, dt) for sg, dt in V]
            return V

        def on_transition(hist, ev, viol):
            desc = {'k': 'replay', 'pair': pair, 'mode': mode, 'history': hist + [ev]}
            R.transitions += 1
            R.case(desc, nontrivial=(ev[0] == 'call'), cls=f'{pair}/{mode}/{ev[0]}',
                   outcome=f"{ev[0]}:{'ok' if not viol else 'violation'}")
            for sig, det in viol:
                R.violation(sig, desc, det)

        EV = alphabet(pair)
        if case['k'] == 'replay':
            w = build()
            for i, ev in enumerate(case['history']):
                viol = step(w, ev)
                if i == len(case['history']) - 1:
                    on_transition(case['history'][:-1], ev, viol)
            return
        if case['k'] == 'debruijn':
            word = de_bruijn_linear(len(EV), case['order'])
            hist = [EV[i] for i in word]
            bfs.run_history(build, step, hist, on_transition)
            R.traces += 1
            R.add('max_history_length', len(hist))
            return
        first = case.get('first')
        if first is None:
            st = bfs.bfs(build, lambda s: EV, step, lambda s: None, case['depth'], on_transition)
        else:
            pre = [EV[first]] + ([EV[case['second']]] if 'second' in case else [])
            w0 = build()
            if any(step(w0, e) for e in pre):
                return          # the prefix already diverges: reported by the shallow unit, not expanded

            def build0():
                w = build()
                for e in pre:
                    step(w, e)
                return w
            st = bfs.bfs(build0, lambda s: EV, step, lambda s: None, case['depth'] - len(pre),
                         lambda h, e, v: on_transition(pre + h, e, v))
        R.states += st['states']
        R.traces += st['transitions']
        R.add('max_depth_completed', st['depth_completed'] + (0 if first is None else 1 + int('second' in case)))


CHECK = C04()
