"""C03 - exchange map is local and shape-preserving under deformation.

Enumerated completely: the C01 reference space (every labelled graph with an anchor on
3, 4 / 5 atoms x 8 geometry classes) x 3 targets x 3 scale factors x conformations:
5 whole-molecule conformations (the construction one, two generic tables, exactly
collinear along z and along (1,1,1)) and, on each of them, EVERY reference atom
displaced alone by each of 2 displacement classes.  Every mapped atom is examined.
"""
import numpy as np

from mcx.build import generic_points
from mcx.core import Check
from mcx.ref import exmap as xm
from mcx.seams import owned_random

SCALES = (0.5, 1.0, 2.0, 0.0)            # 0: every mapped atom collapses onto its anchor
TARGETS = (('near', 0), ('between', 3), ('far', 2), ('onanchor', 0))        # size 0 = number of anchors + 1
BASES = ('construct', 'genA', 'genB', 'colz', 'col111', 'collapse')
DKS = ('small', 'second', 'tiny')                           # second = axial on exactly collinear bases, else large;
                                                            # tiny = 1e-7 nm, applied right after the base conformation
TINY = 1e-7
TOL = 1e-9
TOL_LOCAL = 1e-12
CONST_DRAW = np.array([0.31, 0.77, 0.52])
MIN_SIN = 2e-3          # conformations: every anchor triple exactly collinear or sin >= MIN_SIN
_CONF = {}
_EDIT_COUNT = [0]
CONF_CLASS = {'genA': 'generic', 'genB': 'generic', 'colz': 'col_z', 'col111': 'col_111', 'collapse': 'neighbour-on-anchor'}   # construct: as built


def _script(kind, a, k):
    return CONST_DRAW.copy()


def base_conformation(base, geo, n, seed):
    """(positions, axis or None): axis is given when the conformation is exactly collinear."""
    if base == 'construct':
        ax = np.array(xm.DIRS[geo], dtype=float) * xm.STEP if geo in xm.DIRS else None
        return xm.ref_positions(geo, n, seed), ax
    if base == 'genA':
        return generic_points(n, seed, tag=300 + n), None
    if base == 'genB':
        return 1.7 * generic_points(n, seed, tag=400 + n) + np.array([3.0, -2.0, 1.0]), None
    if base == 'collapse':
        # generic, but the lowest-numbered bonded atom of the first anchor coincides with that anchor: the frame is
        # degenerate (an arbitrary normal), distances to the anchor are still defined
        pos = 1.3 * generic_points(n, seed, tag=500 + n) + np.array([-1.0, 2.0, 0.5])
        return pos, 'collapse'
    if base == 'colz':
        return xm.collinear_points(n, (0, 0, 1), ks=xm.KS2, offset=np.array([-1.5, 0.25, 2.0]), step=0.125), \
            np.array([0.0, 0.0, 0.125])
    if base == 'col111':
        return xm.collinear_points(n, (1, 1, 1), ks=xm.KS2, offset=np.array([0.25, 1.0, -0.5]), step=0.375), \
            np.array([0.375, 0.375, 0.375])
    raise ValueError(base)


def displaced(pos, axis, j, dk, fn, seed):
    """Conformation with only atom j moved; well conditioned (every anchor triple exactly collinear
    or sin >= MIN_SIN, atoms distinct) - walks a fixed direction table until it is."""
    G = xm.direction_table(seed)
    if dk == 'second' and axis is not None:
        cand = [0.625 * axis, -1.625 * axis, 2.375 * axis]
    elif dk == 'tiny':
        cand = [TINY * axis / np.linalg.norm(axis)] if axis is not None else \
            [TINY * G[(j * 3 + 17 + t) % len(G)] for t in range(len(G))]
    else:
        ln = 0.17 if dk == 'small' else 1.3
        cand = [ln * G[(j * 3 + 31 + t) % len(G)] for t in range(len(G))]
    for d in cand:
        new = pos.copy()
        new[j] = pos[j] + d
        if xm.well_conditioned(new, fn, min_sin=MIN_SIN):
            return new
    raise RuntimeError('displaced: no well conditioned displacement')


class C03(Check):
    pid = 'C03'
    level = 'exploration'
    rule = ('case = (bond graph, geometry class, target, scale factor, base conformation, displaced atom or none, '
            'displacement class); every mapped atom examined; distinct by descriptor; non-trivial = the map was applied '
            'to a conformation different from the construction one and the distance clauses were compared for every '
            'mapped atom (plus locality for every mapped atom whose frame does not contain the displaced atom)')
    technique = ('exhaustive enumeration of bond graphs x geometry classes x targets x scales x conformations x every '
                 'displaced atom on the real ExchangeMap; differential locality oracle, metric oracle from the statement')
    level_text = ('every labelled graph with an anchor on 3..4 (quick) / 3..5 (thorough) atoms in 8 construction geometry '
                  'classes, 3 targets, 2-4 scale factors (incl. 0 on 3-atom references), 5 whole-molecule conformations (incl. two exactly collinear ones) '
                  'and on each every single-atom displacement from 3 classes (0.17 nm, 1.3 nm / axial, and 1e-7 nm right after the base conformation), every mapped atom, executed on the real code')
    level_note = ('trusted: numpy arithmetic, graph enumerator, in-memory builders, brute-force nearest-anchor assignment and '
                  'the frame-neighbour rule computed from the edge list; not covered: near-collinear conformations '
                  '(0 < sin < 0.002 at an anchor), displacement vectors outside the table, references above 5 atoms')
    assumptions = ['conformations are either exactly collinear at an anchor (dyadic coordinates) or have sin >= 0.002 there '
                   '(enforced by the builder, deterministic walk of a direction table selected by VERIF_SEED)',
                   'displacement classes: 0.17 nm generic; 1.3 nm generic, or along the axis on exactly collinear conformations; 1e-7 nm (generic, axial on exactly collinear conformations) mapped immediately after the base conformation',
                   'scale factors {0.5, 2} (thorough, references up to 4 atoms: also 1)']

    def units(self, tier, seed):
        nmax = 5 if tier == 'thorough' else 4
        self.bounds = {'ref_atoms': [3, nmax], 'graphs': {n: len(xm.ref_graphs(n)) for n in range(3, nmax + 1)},
                       'geometry_classes': list(xm.GEO), 'targets': [list(t) for t in TARGETS],
                       'scale_factors': {'quick': {'n=3': [0.5, 2.0, 0.0], 'n=4': [0.5, 2.0]}, 'thorough': {'n<=4': list(SCALES), 'n=5': [0.5, 2.0]}}[tier], 'base_conformations': list(BASES),
                       'displacement_classes': list(DKS), 'displaced_atoms': 'every atom',
                       'tolerance_nm': TOL, 'locality_tolerance_nm': TOL_LOCAL}
        u = []
        for n in range(3, nmax + 1):
            mod = {3: 1, 4: 9, 5: 64}[n]
            for geo in xm.GEO:
                u += [{'n': n, 'geo': geo, 'mod': mod, 'r': r} for r in range(mod)]
        # nearly collinear construction geometries (sin ~1e-9, 3e-10, 1e-5 at every anchor): the frame must still be
        # orthonormal, so the distance clauses hold; only whole-molecule conformations are applied (a single-atom
        # displacement of such a geometry is neither clearly bent nor exactly collinear)
        self.bounds['nearly_collinear_construction_classes'] = list(xm.NEAR) + list(xm.BENT)
        for n in range(3, nmax + 1):
            mod = {3: 1, 4: 3, 5: 16}[n]
            for geo in list(xm.NEAR) + list(xm.BENT):
                u += [{'n': n, 'geo': geo, 'mod': mod, 'r': r} for r in range(mod)]
        # a 9-atom chain 0..7 with a side bead 8 on atom 2: its bonded set {1, 3, 8} does not iterate in ascending order
        # as a hash set; the frame still uses the two LOWEST (1 and 3), so displacing bead 8 changes nothing
        u.append({'wrap9': True, 'n': 9})
        # two-atom references: the anchor of a mapped atom is the one the map REPORTS (equivalences)
        u.append({'ref2': True, 'n': 2})
        # topology edited between two maps: a map is built and used, a bond is then ADDED to the same topology
        # object and a second map built - its frames must follow the new bond graph
        self.bounds['topology_edit'] = 'every graph with an anchor on 3..4 atoms x every absent edge; generic geometry'
        u += [{'edit': True, 'n': n, 'mod': m, 'r': r} for n, m in ((3, 1), (4, 6)) for r in range(m)]
        return u

    def cases(self, unit, tier, seed):
        n = unit['n']
        if unit.get('wrap9'):
            for side in (2, 5):
                edges = [[i, i + 1] for i in range(7)] + [[side, 8]]
                for ti in (0, 1):
                    for s in (0.5, 2.0):
                        yield {'n': 9, 'edges': edges, 'geo': 'generic', 't': ti, 's': s, 'bases': ['construct', 'genA', 'genB']}
            return
        if unit.get('ref2'):
            for bonded in (1, 0):
                for s in (0.5, 1.0, 2.0):
                    for ti in range(3):
                        yield {'ref2': 1, 'bonded': bonded, 's': s, 't': ti}
            return
        if unit.get('edit'):
            for i, edges in enumerate(xm.ref_graphs(n)):
                if i % unit['mod'] != unit['r']:
                    continue
                have = {tuple(sorted(e)) for e in edges}
                for a in range(n):
                    for b in range(a + 1, n):
                        if (a, b) not in have:
                            yield {'n': n, 'edges': edges, 'geo': 'generic', 't': 0, 's': 0.5, 'add': [a, b]}
            return
        for i, edges in enumerate(xm.ref_graphs(n)):
            if i % unit['mod'] != unit['r']:
                continue
            # s = 1 only where it is affordable: thorough tier, references up to 4 atoms
            scales = SCALES if (tier == 'thorough' and n <= 4) else ((0.5, 2.0, 0.0) if n == 3 else (0.5, 2.0))
            for ti in range(len(TARGETS)):
                for s in scales:
                    yield {'n': n, 'edges': edges, 'geo': unit['geo'], 't': ti, 's': s}
            if unit['geo'] in ('generic', 'col_z'):      # the same with reference and target split into two residues
                yield {'n': n, 'edges': edges, 'geo': unit['geo'], 't': 1, 's': 0.5, 'tres': 2}
                # ... and with the target's coordinates held as float32 / as integer arrays (whole-number coordinates)
                yield {'n': n, 'edges': edges, 'geo': unit['geo'], 't': 1, 's': 0.5, 'tdt': 1}
                yield {'n': n, 'edges': edges, 'geo': unit['geo'], 't': 1, 's': 0.5, 'tdt': 2}

    # ------------------------------------------------------------------
    def check_case(self, case, R, seed):
        with owned_random(_script):
            if case.get('ref2'):
                self._ref2(case, R, seed)
            else:
                self._run(case, R, seed)

    def _ref2(self, case, R, seed):
        """Two-atom reference under non-rigid deformation (the bond is stretched): each mapped atom stays at s times
        its construction-time distance from the reference atom the map reports as its anchor."""
        from gaddlemaps import ExchangeMap
        s = case['s']
        G = xm.direction_table(seed)
        rpos = generic_points(2, seed, tag=102)
        v = rpos[1] - rpos[0]
        ln = np.linalg.norm(v)
        tpos = np.array([rpos[0] + 0.3 * ln * G[0], rpos[1] + 0.25 * ln * G[1], rpos[0] + 0.8 * v + 0.2 * ln * G[2],
                         rpos[1] + 0.6 * v + 0.1 * ln * G[3]])
        ref = xm.ref_molecule(2, [(0, 1)] if case['bonded'] else [])
        ref.atoms_positions = rpos.copy()
        tgt = xm.tgt_molecule(len(tpos))
        tgt.atoms_positions = tpos.copy()
        try:
            emap = ExchangeMap(ref, tgt, s)
            anchor_of = {int(t): int(a) for a, ts in emap.equivalences.items() for t in ts}
        except Exception as ex:
            R.violation('ref2/build/exception', case, repr(ex))
            return
        if sorted(anchor_of) != list(range(len(tpos))) or not set(anchor_of.values()) <= {0, 1}:
            R.violation('ref2/equivalences-do-not-cover-the-target', case, str(anchor_of))
            return
        want = {t: s * float(np.linalg.norm(tpos[t] - rpos[a])) for t, a in anchor_of.items()}
        moved = ref.copy()
        confs = [rpos, rpos + np.array([1.0, -2.0, 0.5]),
                 np.array([rpos[0], rpos[0] + 1.7 * v]),                      # bond stretched
                 np.array([rpos[0] + 0.3, rpos[1] + np.array([0.2, -0.1, 0.4])]),
                 generic_points(2, seed, tag=302) * 2.0 - 1.0][case['t']::3]
        for ci, conf in enumerate(confs):
            d = dict(case, conf=ci)
            moved.atoms_positions = conf
            try:
                out = emap(moved).atoms_positions
            except Exception as ex:
                R.violation('ref2/call/exception', d, repr(ex))
                continue
            R.case(d, nontrivial=True, cls='ref2/bonded%d' % case['bonded'], outcome='two-atom-reference')
            for t, a in anchor_of.items():
                got = float(np.linalg.norm(out[t] - conf[a]))
                if not np.isfinite(got) or abs(got - want[t]) > TOL:
                    R.violation('ref2/distance-to-reported-anchor', d,
                                f'atom {t}, anchor {a} (as reported by equivalences): {got!r} vs s*d0 = {want[t]!r}')
                    break

    def _run(self, case, R, seed):
        from gaddlemaps import ExchangeMap
        n, edges, geo, ti, s = (case[x] for x in ('n', 'edges', 'geo', 't', 's'))
        ref = None
        if 'add' in case:
            # fresh molecule with the ORIGINAL graph; build and use a map; then add the bond to its topology
            from mcx.build import molecule, simple_atoms
            # residue name unique within the process: nothing an earlier case left behind (e.g. in a memo keyed
            # by atom equality) can stand in for this molecule's atoms
            _EDIT_COUNT[0] += 1
            rn = 'E%04d' % (_EDIT_COUNT[0] % 10000)
            ref = molecule('REF', simple_atoms(n, rn, 'C'), [tuple(e) for e in edges], generic_points(n, 0, tag=1))
            ref.atoms_positions = xm.ref_positions(geo, n, seed)
            t0 = xm.tgt_molecule(2)
            t0.atoms_positions = xm.ref_positions(geo, n, seed)[:2] + 0.03
            ExchangeMap(ref, t0, s)(ref)
            a, b = case['add']
            ref.molecule_top[a].connect(ref.molecule_top[b])
            edges = [list(e) for e in edges] + [[a, b]]
        anch = xm.anchors(n, edges)
        fn = xm.frame_neighbours(n, edges)
        place, m = TARGETS[ti]
        m = m or len(anch) + 1
        rpos = xm.ref_positions(geo, n, seed)
        tpos = xm.target_positions(rpos, anch, m, place, seed)
        tdtype = {0: np.float64, 1: np.float32, 2: np.int64}[case.get('tdt', 0)]
        if tdtype is np.int64:
            tpos = np.round(tpos * 4.0)
        tpos = tpos.astype(tdtype).astype(np.float64)
        assign, _, _ = xm.ref_map(rpos, anch, tpos, s)
        want_d = [s * float(np.linalg.norm(tpos[k] - rpos[assign[k]])) for k in range(m)]
        pairs = [(k, l, s * float(np.linalg.norm(tpos[k] - tpos[l])))
                 for k in range(m) for l in range(k + 1, m) if assign[k] == assign[l]]
        frame_of = [{assign[k], *fn[assign[k]]} for k in range(m)]
        if ref is None:
            ref = xm.ref_molecule(n, edges, case.get('tres', 1))
        ref.atoms_positions = rpos.copy()
        tgt = xm.tgt_molecule(m, case.get('tres', 1))
        tgt.atoms_positions = tpos.astype(tdtype)
        cls0 = f'n{n}/{geo}/{place}' + ('/bond-added' if 'add' in case else '')
        try:
            emap = ExchangeMap(ref, tgt, s)
            # construction-time distances are those AT CONSTRUCTION: both construction objects are changed in
            # place before the map is used for the first time
            ref.atoms_positions = rpos[::-1] * 1.5 + np.array([-2.0, 0.5, 1.0])
            tgt.atoms_positions = (tpos[::-1] * 0.5 + np.array([3.0, 1.0, -2.0])).astype(tdtype)
        except Exception as ex:
            R.case(case, nontrivial=False, outcome='exception', cls=cls0)
            R.violation(f'build/{geo}/exception', case, repr(ex))
            return
        moved = ref.copy()

        held = {}

        def apply(conf, cdesc, cls, sig, keep=False):
            moved.atoms_positions = conf
            try:
                res = emap(moved)
                out = res.atoms_positions
                if keep:
                    held['mol'], held['pos'] = res, out.copy()
            except Exception as ex:
                R.case(cdesc, nontrivial=False, outcome='exception', cls=cls)
                R.violation(f'exception/{sig}', cdesc, repr(ex))
                return None
            if not np.all(np.isfinite(out)):
                R.case(cdesc, nontrivial=False, outcome='non-finite', cls=cls)
                R.violation(f'non-finite/{sig}', cdesc, out.tolist())
                return None
            for k in range(m):
                got = float(np.linalg.norm(out[k] - conf[assign[k]]))
                if abs(got - want_d[k]) > TOL:
                    R.violation(f'distance-to-anchor/{sig}', cdesc,
                                f'atom {k} anchor {assign[k]}: |out - anchor| = {got!r}, s*|p - a| = {want_d[k]!r}')
                    break
            for k, l, want in pairs:
                got = float(np.linalg.norm(out[k] - out[l]))
                if abs(got - want) > TOL:
                    R.violation(f'intra-anchor-distance/{sig}', cdesc,
                                f'atoms {k},{l} (anchor {assign[k]}): {got!r} vs s*|p_k - p_l| = {want!r}')
                    break
            return out

        for base in ([case['base']] if 'base' in case else case.get('bases', BASES)):
            bpos, axis = base_conformation(base, geo, n, seed)
            if isinstance(axis, str):
                # 'collapse': the lowest neighbour of an anchor is put ON the anchor ("middle point = first point" of
                # its frame).  Only a neighbour that is no anchor itself is used: an anchor coinciding with its own
                # SECOND frame neighbour has no first axis at all (outside C17's premise "first and third distinct")
                cand = [a for a in sorted(fn) if fn[a][0] not in fn]
                if not cand:
                    continue
                bpos = bpos.copy()
                bpos[fn[cand[0]][0]] = bpos[cand[0]]
                axis = None
            sig = f'built-{geo}/applied-{CONF_CLASS.get(base, geo)}'
            bdesc = dict(case, base=base)
            want_j = case.get('j', None)
            via_ref = None
            if base == 'genA' and 'add' not in case:
                # the conformation is first given through the CONSTRUCTION object itself, changed in place (the call
                # before this one mapped another conformation), then through a copy: same result
                ref.atoms_positions = bpos
                try:
                    via_ref = emap(ref).atoms_positions
                except Exception as ex:
                    R.violation(f'exception/{sig}', dict(bdesc, j=-1), repr(ex))
            if base == 'genB':
                # the public attribute is assigned its own value between two calls: nothing may change
                emap.scale_factor = s
            out0 = apply(bpos, dict(bdesc, j=-1), f'{cls0}/{base}', sig, keep=True)
            if out0 is not None and base == 'genA' and 'add' not in case:
                if via_ref is not None and not np.array_equal(via_ref, out0):
                    R.violation(f'construction-object-in-place-differs-from-a-copy/{sig}', dict(bdesc, j=-1),
                                f'max difference {float(np.abs(via_ref - out0).max()):.3e}')
            if out0 is None:
                continue
            if want_j in (None, -1):
                R.case(dict(bdesc, j=-1), nontrivial=base != 'construct', outcome='whole-conformation',
                       cls=f'{cls0}/{base}')
            if want_j == -1 or geo in xm.NEAR or geo in xm.BENT or base == 'collapse':
                continue
            for j in ([want_j] if want_j is not None else range(n)):
                for dk in ([case['dk']] if 'dk' in case else DKS):
                    cdesc = dict(bdesc, j=j, dk=dk)
                    ckey = (n, str(edges), geo, base, j, dk, seed)
                    if ckey not in _CONF:
                        if len(_CONF) > 4096:
                            _CONF.clear()
                        _CONF[ckey] = displaced(bpos, axis, j, dk, fn, seed)
                    conf = _CONF[ckey]
                    if dk == 'tiny':
                        # the conformation seen just before differs from this one by 1e-7 nm in one atom only
                        moved.atoms_positions = bpos
                        emap(moved)
                    out = apply(conf, cdesc, f'{cls0}/{base}/{dk}', sig)
                    if out is None:
                        continue
                    if not np.array_equal(held['mol'].atoms_positions, held['pos']):
                        R.violation(f'earlier-result-changed/{sig}', cdesc,
                                    'the molecule returned for the base conformation changed when another conformation '
                                    'was mapped (distances to ITS anchors no longer hold)')
                        held['pos'] = held['mol'].atoms_positions.copy()
                    free = [k for k in range(m) if j not in frame_of[k]]
                    dep = [k for k in range(m) if j in frame_of[k]]
                    reacted = any(np.abs(out[k] - out0[k]).max() > TOL_LOCAL for k in dep)
                    R.case(cdesc, nontrivial=True, cls=f'{cls0}/{base}/{dk}',
                           outcome=f'local-atoms={min(len(free), 3)}/dependent-atoms-moved={int(reacted)}')
                    R.add('locality_comparisons', len(free))
                    for k in free:
                        dev = float(np.abs(out[k] - out0[k]).max())
                        if dev > TOL_LOCAL:
                            R.violation(f'locality/{sig}', cdesc,
                                        f'atom {k} (anchor {assign[k]}, frame neighbours {fn[assign[k]]}) moved by '
                                        f'{dev:.3e} when only reference atom {j} was displaced')
                            break


CHECK = C03()
