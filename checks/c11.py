"""C11 - System recognises exactly the molecule instances present, in file order.

Enumerated completely (no sampling): every sequence of molecules of length
1..L over {S1, S2, S3, S4, W} x residue-numbering class x EVERY permutation of
the loading order of the species present x {all topologies at construction, one
by one with add_ftop (oracle after every add)}; plus, per file, every topology
that has no matching run (absent species, kinds present but sequence absent,
atom names different) - each must be refused.

The reference is the generator's own ground truth (it assembled the file):
instance list with atom ranges, names, coordinates, residue numbers.
"""
import itertools

import numpy as np

from mcx.build import MemFile, gro_text, itp_text
from mcx.core import Check

# species -> list of residues (resname, atom names); kinds pairwise disjoint between species
SPECIES = {
    'S1': [('A', ['A1', 'A2'])],
    'S2': [('B', ['B1']), ('C', ['C1', 'C2'])],
    # a residue kind repeated inside a species, which also BEGINS and ENDS with the same kind (two S3 in a row put
    # two D residues of different molecules side by side; adjacent equal residues inside one molecule: S5)
    'S3': [('D', ['D1']), ('E', ['E1']), ('D', ['D1'])],
    'S4': [('F', ['F1', 'F2', 'F3'])],
    'S5': [('M', ['M1']), ('M', ['M1'])],                    # homodimer: its residue pattern overlaps itself
    'W': [('W', ['OW'])],                                     # solvent, never loaded
}
LOADABLE = ('S1', 'S2', 'S3', 'S4', 'S5')
SYMBOLS = ('S1', 'S2', 'S3', 'S4', 'W', 'S5')
# two species that SHARE a residue kind (the only ones that do): S6 begins with the kind repeated, S7 ends with it, so in
# "S7 S6" three equal residues of two molecules lie side by side; every file over them still has exactly one reading.
# Enumerated on their own (files up to length 3 over {S6, S7, W}), without the refused-topology part (a topology of
# the other species' kinds could legitimately match there)
SPECIES['S6'] = [('M', ['M1']), ('M', ['M1']), ('N', ['N1'])]
SPECIES['S7'] = [('P', ['P1']), ('M', ['M1'])]
LOADABLE2 = ('S6', 'S7')
SYMBOLS2 = ('S6', 'S7', 'W')
NUMBERINGS = ('seq', 'alt', 'wrap', 'same')
ATOMS_OF = {'A': ['A1', 'A2'], 'B': ['B1'], 'C': ['C1', 'C2'], 'D': ['D1'], 'E': ['E1'],
            'F': ['F1', 'F2', 'F3'], 'W': ['OW'], 'M': ['M1'], 'N': ['N1'], 'P': ['P1']}
# candidate topologies whose residue kinds may exist in a file while their sequence does not
GHOST_SEQS = (('B', 'B'), ('C', 'C'), ('C', 'B'), ('E', 'D'), ('D', 'E'), ('D', 'D', 'D'),
              ('A', 'A'), ('A', 'W'), ('W', 'F'), ('F', 'A'))


TOPNUMS = ('seq', 'same', 'rev')


def top_text(name, residues, tnum='seq'):
    """Topology text.  tnum = residue numbering INSIDE the topology (irrelevant for recognition: adjacent
    residues always differ in number or name): seq 1,2,3..; same: the number only advances when the residue
    name repeats (differently named residues share a number); rev: decreasing numbers."""
    atoms = []
    num, prev = 1, None
    for ri, (rn, names) in enumerate(residues):
        if tnum == 'seq':
            num = ri + 1
        elif tnum == 'rev':
            num = len(residues) - ri
        else:
            num = num + 1 if rn == prev else num
        prev = rn
        atoms += [(an, rn, num) for an in names]
    bonds = [(i, i + 1) for i in range(len(atoms) - 1)]
    return itp_text(name, atoms, bonds)


def resid_of(num, j, prev_rid, same_name):
    """Residue number of the j-th residue of the file; adjacent residues differ in number or name."""
    if num == 'seq':
        return j + 1
    if num == 'alt':
        return 7 + (j % 2)
    if num == 'same':                    # same number on adjacent residues of different names
        return 1 if j == 0 else (prev_rid + 1 if same_name else prev_rid)
    return (99997 + j) % 100000          # wrap: ..., 99998, 99999, 0, 1, ...


def build_file(seq, num, seed):
    """Return (gro text, instances, residue stream).  instances: ground truth, file order."""
    recs, inst, stream = [], [], []
    aid, j = 0, 0
    rid, prev_rn = 0, None
    # numbering class 'wrap': the ATOM numbers wrap too (a piece cut out of a box of >= 100 000 atoms): ..., 99999, 0, 1, ...
    # the wrap falls after the 1st, 2nd or 3rd atom of the file (fixed per sequence), i.e. inside a residue or on a boundary
    astart = 1 if num != 'wrap' else 99999 - (sum((SYMBOLS + SYMBOLS2).index(x) for x in seq) % 3)
    for sym in seq:
        a0 = aid
        names, ids, pos, rids, rnames = [], [], [], [], []
        for rn, anames in SPECIES[sym]:
            rid = resid_of(num, j, rid, rn == prev_rn)
            prev_rn = rn
            j += 1
            stream.append(rn)
            rids.append(rid)
            rnames.append(rn)
            for an in anames:
                p = (0.011 * (aid + 1) + 0.1 * seed, 1.0 + 0.007 * (aid + 1),
                     2.0 + 0.013 * ((aid * aid + seed) % 17))
                if aid % 3 == 0:          # a coordinate that fills its column (no blank before it): -1xx.xxx in %8.3f
                    p = (p[0], -100.0 - p[1], p[2])
                recs.append((rid, rn, an, (astart + aid) % 100000, p))
                names.append(an)
                ids.append((astart + aid) % 100000)
                pos.append(tuple(float(f'{x:8.3f}') for x in p))
                aid += 1
        inst.append({'sp': sym, 'a0': a0, 'a1': aid, 'names': names, 'ids': ids, 'pos': pos,
                     'resids': rids, 'resnames': rnames})
    return gro_text(recs, title='c11 ' + ','.join(seq)), inst, stream


def fp_truth(g):
    """Fingerprint of a ground-truth instance, comparable with fp_mol."""
    at = []
    k = 0
    for rid, rn in zip(g['resids'], g['resnames']):
        for _ in ATOMS_OF[rn]:
            at.append((g['ids'][k], g['names'][k], rn, rid) + g['pos'][k])
            k += 1
    return (g['sp'], tuple(at))


def fp_mol(m):
    at = []
    for res in m.residues:
        for a in res:
            p = a.position
            at.append((a.atomid, a.name, a.resname, a.resid, float(p[0]), float(p[1]), float(p[2])))
    return (m.name, tuple(at))


def contains_run(stream, pat):
    n = len(pat)
    return any(tuple(stream[i:i + n]) == tuple(pat) for i in range(len(stream) - n + 1))


class C11(Check):
    pid = 'C11'
    level = 'exploration'
    rule = ('case = (molecule sequence, residue-numbering class, loading order, loading mode) or (file, refused '
            'topology, position); every sequence over {S1,S2,S3,S4,W} up to the length bound x every permutation of '
            'the species present x {constructor, add_ftop one by one}; distinct by descriptor; non-trivial = at '
            'least one molecule of a loaded species is in the file and the file has >= 2 residues')
    technique = ('exhaustive enumeration of molecule sequences x all loading-order permutations x loading mode on the '
                 'real System; oracle = the generator\'s own instance list with Python list semantics for len / index / '
                 'slice / iteration')
    level_text = ('every sequence of up to 4 (quick) / 6 (thorough) molecules over 5 species (one a homodimer whose residue pattern overlaps itself, in files up to 3/4 molecules) + unloaded solvent, 4 '
                  'residue-numbering classes, every loading-order permutation, both loading modes (with the oracle '
                  'after every add_ftop, i.e. every ordered subset of species), every index in [-n-1, n], the slice '
                  'cube {None,-2,-1,0,1,2,n}^3, and every topology without a matching run are executed on the real '
                  'code; a coverage statement over that finite space')
    level_note = ('trusted: mcx.build text builders, the .gro/.itp parsers (C12, C15 check them). Not covered: species '
                  'sharing a residue kind (outcome legitimately depends on load order), adjacent molecules of one '
                  'species carrying the SAME residue number (the coordinate file then shows one residue; the statement '
                  'does not promise recognition), two residues of equal (name, size) but different atom names. Beyond '
                  'the all-orders length the slice cube is evaluated for one loading order (constructor mode), at '
                  'length 6 with step in {None,-1,2}; len / composition / iteration / every index are evaluated on '
                  'every case.')
    assumptions = ['residue kinds pairwise disjoint between species ("distinct residue signatures"), except the pair S6 = M M N / '
                   'S7 = P M, which share the kind M but whose residue SEQUENCES are distinct and occur in every enumerated file '
                   'only at the starts of their own instances (asserted per file), so each file has one reading in any loading order',
                   'adjacent residues differ in residue number or in residue name (classes: sequential, alternating '
                   '7/8, wrap ...99998,99999,0,1... (residue AND atom numbers), same number on adjacent residues of different names)',
                   'coordinates: a deterministic table, unique per atom, shifted by VERIF_SEED']

    # ------------------------------------------------------------------
    def units(self, tier, seed):
        lmax = 6 if tier == 'thorough' else 4
        m = 128 if tier == 'thorough' else 48
        sl = 4 if tier == 'thorough' else 3      # slice cube on every (sequence, order, mode) up to this length
        nl = 4 if tier == 'thorough' else 3      # numbering classes alt, wrap, same up to this length
        sl2 = 3 if tier == 'thorough' else 2     # same, for the numbering classes other than seq
        self.bounds = {'sequence_len_max': lmax, 'species': 4, 'shared_kind_species': 'S6 = M M N and S7 = P M: every file up to length 3 over {S6, S7, W}, all numberings, all loading orders, both modes', 'solvent': 'W (never loaded)',
                       'numberings': list(NUMBERINGS), 'loading_orders': 'all permutations',
                       'modes': ['ctor', 'add'], 'slice_values': '{None,-2,-1,0,1,2,n}^3, step != 0',
                       'slice_cube_all_orders_up_to_len': {'seq': sl, 'alt/wrap/same': sl2},
                       'slice_cube_one_order_beyond': 'full cube up to length 5; at length 6 step in {None,-1,2}',
                       'oracle_after_each_add_ftop': 'iteration, len, composition, every index, reduced slice cube; final state: full slice cube',
                       'topology_residue_numbering': 'seq / same number on differently named residues / decreasing, for files '
                                                     'with a multi-residue species up to the all-orders slice length (numbering seq)',
                       'numbering_alt_wrap_same_up_to_len': nl,
                       'refused_topologies': 'numbering seq only; absent species, absent kind sequence, '
                                             'different atom names; before and after loading the real species '
                                             '(after only, for sequences longer than 4)'}
        return [{'lmax': lmax, 'mod': m, 'r': r, 'sl': sl, 'sl2': sl2, 'nl': nl} for r in range(m)]

    def cases(self, unit, tier, seed):
        i = 0
        for ln in range(1, unit['lmax'] + 1):
            for seq in itertools.product(SYMBOLS, repeat=ln):
                if 'S5' in seq and ln > unit['sl']:          # the homodimer only in the shorter files
                    continue
                for num in NUMBERINGS:
                    if num != 'seq' and ln > unit['nl']:
                        continue
                    i += 1
                    if i % unit['mod'] == unit['r']:
                        yield {'seq': list(seq), 'num': num, 'sl': unit['sl'] if num == 'seq' else unit['sl2']}
        for ln in range(1, 4):
            for seq in itertools.product(SYMBOLS2, repeat=ln):
                if set(seq) == {'W'}:
                    continue
                for num in NUMBERINGS:
                    i += 1
                    if i % unit['mod'] == unit['r']:
                        yield {'seq': list(seq), 'num': num, 'sl': unit['sl'] if num == 'seq' else unit['sl2'], 'shared': 1}

    # ------------------------------------------------------------------
    def check_case(self, case, R, seed):
        seq, num = case['seq'], case['num']
        text, inst, stream = build_file(seq, num, seed)
        present = [s for s in LOADABLE + LOADABLE2 if s in seq]
        if case.get('shared'):
            # premise of the shared-kind files: each species' residue sequence occurs in the file's residue stream exactly
            # at the starts of its own instances, so the file has ONE reading whatever the loading order
            pos, true = 0, {}
            for sym in seq:
                true.setdefault(sym, []).append(pos)
                pos += len(SPECIES[sym])
            kinds = [rn for sym in seq for rn, _ in SPECIES[sym]]
            for sp in present:
                pat = [rn for rn, _ in SPECIES[sp]]
                occ = [k for k in range(len(kinds) - len(pat) + 1) if kinds[k:k + len(pat)] == pat]
                assert occ == true[sp], (seq, sp, occ, true[sp])
        if 'ghost' in case:
            self._ghost(case, R, text, inst, stream, present)
            return
        perms = [case['perm']] if 'perm' in case else [list(p) for p in itertools.permutations(present)]
        modes = [case['mode']] if 'mode' in case else ['ctor', 'add']
        multi = any(len(SPECIES[s]) > 1 for s in present)
        tnums = [case['tnum']] if 'tnum' in case else \
            (TOPNUMS if num == 'seq' and multi and len(seq) <= case.get('sl', 4) else ('seq',))
        for pi, perm in enumerate(perms):
            for mode in modes:
                if len(seq) <= case.get('sl', 4) or 'perm' in case:
                    level = 3
                elif pi == 0 and mode == 'ctor':
                    level = 3 if len(seq) <= 5 else 2
                else:
                    level = 1
                for tnum in tnums:
                    self._load(dict(case, perm=perm, mode=mode, tnum=tnum), R, text, inst, perm, mode,
                               level if tnum == 'seq' else min(level, 1))
        if 'perm' not in case and num == 'seq' and not case.get('shared'):
            for g in self._ghosts(seq, stream, present):
                self._ghost(dict(case, ghost=g), R, text, inst, stream, present)

    # ------------------------------------------------------------------
    _oor_other = 0

    def _load(self, cdesc, R, text, inst, perm, mode, level):
        from gaddlemaps.components import System
        self._oor_other = 0
        seq = cdesc['seq']
        tops = [MemFile(top_text(s, SPECIES[s], cdesc.get('tnum', 'seq')), s + '.itp') for s in perm]
        sig = det = None
        syst = None
        try:
            if mode == 'ctor':
                syst = System(MemFile(text, 'c11.gro'), *tops)
                sig, det = self._oracle(syst, inst, set(perm), level)
            else:
                syst = System(MemFile(text, 'c11.gro'))
                sig, det = self._oracle(syst, inst, set(), 1)
                for k, t in enumerate(tops):
                    if sig:
                        break
                    syst.add_ftop(t)
                    last = k == len(tops) - 1
                    # indexing is exercised after EVERY add (a later add must be visible through every access path)
                    sig, det = self._oracle(syst, inst, set(perm[:k + 1]), level if last else min(level, 2))
                    if sig:
                        det = f'after loading {perm[:k + 1]}: {det}'
        except Exception as exc:     # a present species must load
            sig, det = 'load/exception', f'{type(exc).__name__}: {exc}'
        want = [g for g in inst if g['sp'] in perm]
        R.case(cdesc, nontrivial=bool(want) and sum(len(SPECIES[s]) for s in seq) >= 2,
               outcome=f'{len(want)} molecules/{len(perm)} species',
               cls=f"len{len(seq)}/sp{len(perm)}/{mode}/{cdesc['num']}" + ('' if cdesc.get('tnum', 'seq') == 'seq' else '/top-' + cdesc['tnum']))
        if self._oor_other:
            R.add('out_of_range_refused_with_other_than_IndexError', self._oor_other)
        if sig:
            R.violation(sig, cdesc, det)

    def _oracle(self, syst, inst, loaded, level):
        """Compare the System with the ground truth restricted to the loaded species.

        level 0: iteration (complete per-atom fingerprint), len, composition; 1: + public Molecule
        interface atom by atom, every index, iteration interleaved with indexing and a second live iterator, out-of-range; 2: + slice cube with step in {None,-1,2};
        3: + full slice cube.  The checks of a lower level come first, in the same order.
        """
        want = [g for g in inst if g['sp'] in loaded]
        wfp = [fp_truth(g) for g in want]
        n = len(want)
        mols = list(syst)
        got = [fp_mol(m) for m in mols]
        if got != wfp:
            if len(got) != n:
                return 'iter/wrong-number-of-molecules', f'{len(got)} molecules, {n} instances in the file'
            if sorted(got) == sorted(wfp):
                return 'iter/not-in-file-order', [g[0] + str(g[1][0][0]) for g in got]
            return 'iter/molecule-differs-from-instance', self._first_diff(got, wfp)
        ids = [i for g in got for i in [a[0] for a in g[1]]]
        if len(set(ids)) != len(ids):
            return 'iter/runs-overlap', ids
        if len(syst) != n:
            return 'len/disagrees-with-iteration', (len(syst), n)
        comp = {}
        for g in want:
            comp[g['sp']] = comp.get(g['sp'], 0) + 1
        have = {k: v for k, v in dict(syst.composition).items() if v}
        if have != comp:
            return 'composition/disagrees-with-instances', (have, comp)
        if level < 1:
            return None, None
        # atom by atom through the public Molecule interface
        for m, g in zip(mols, want):
            if len(m) != len(g['names']):
                return 'iter/molecule-length', (len(m), len(g['names']))
            names_top = [a.name for a in m.molecule_top]
            names_mol = [a.name for a in m]
            if names_top != g['names'] or names_mol != g['names']:
                return 'iter/atom-names-differ-from-topology', (names_mol, names_top, g['names'])
            if list(m.atoms_ids) != g['ids']:
                return 'iter/not-the-contiguous-run', (m.atoms_ids, g['ids'])
            if np.abs(m.atoms_positions - np.array(g['pos'])).max() > 1e-9:
                return 'iter/coordinates-not-the-files', m.atoms_positions.tolist()
        for i in range(-n, n):
            try:
                f = fp_mol(syst[i])
            except Exception as exc:
                return 'index/exception-in-range', f'[{i}] of {n}: {type(exc).__name__}: {exc}'
            if f != wfp[i]:
                return 'index/disagrees-with-iteration', f'[{i}] of {n}'
        # a molecule handed out is the caller's: moving it must not show in what the System hands out next
        if n:
            m0 = syst[0]
            m0.move(np.array([0.5, -0.25, 1.0]))
            if fp_mol(syst[0]) != wfp[0] or fp_mol(syst[-n]) != wfp[0]:
                return 'index/molecule-handed-out-earlier-was-moved-and-the-next-fetch-shows-it', '[0]'
        # iteration interleaved with other accesses to the same System (index, a second live iterator)
        got2 = []
        other = iter(syst)
        try:
            for k, m in enumerate(syst):
                got2.append(fp_mol(m))
                if n:
                    if fp_mol(syst[(2 * k + 1) % n]) != wfp[(2 * k + 1) % n]:
                        return 'index/disagrees-with-iteration', f'[{(2 * k + 1) % n}] read while iterating'
                    if k % 2 == 0:
                        nxt = next(other, None)
                        if nxt is not None and fp_mol(nxt) != wfp[k // 2]:
                            return 'iter/second-live-iterator-differs', f'item {k // 2}'
        except Exception as exc:
            return 'iter/exception-when-interleaved-with-access', f'{type(exc).__name__}: {exc}'
        if got2 != wfp:
            return 'iter/disturbed-by-access-during-iteration', self._first_diff(got2, wfp) if len(got2) == n else \
                f'{len(got2)} molecules, {n} instances'
        for i in (n, n + 1, -n - 1, -n - 2):
            try:
                syst[i]
            except IndexError:
                continue
            except Exception:         # the statement does not name the exception type
                self._oor_other += 1
                continue
            return 'index/out-of-range-accepted', f'[{i}] of {n}'
        # a refused index leaves the System as usable as before: valid indices in ascending order with a refused one
        # between each two of them
        for i in range(n):
            for bad in (n, -n - 1):
                try:
                    syst[bad]
                except Exception:
                    pass
            try:
                f = fp_mol(syst[i])
            except Exception as exc:
                return 'index/exception-in-range-after-a-refused-index', f'[{i}] of {n}: {type(exc).__name__}: {exc}'
            if f != wfp[i]:
                return 'index/disagrees-with-iteration', f'[{i}] of {n} after a refused index'
        if level >= 2:
            vals = []
            for v in (None, -2, -1, 0, 1, 2, n):
                if v not in vals:
                    vals.append(v)
            for a in vals:
                for b in vals:
                    for c in vals:
                        if c == 0 or (level == 2 and c not in (None, -1, 2)):
                            continue
                        try:
                            out = [fp_mol(m) for m in syst[a:b:c]]
                        except Exception as exc:
                            return 'slice/exception', f'[{a}:{b}:{c}] of {n}: {type(exc).__name__}: {exc}'
                        if out != wfp[a:b:c]:
                            return 'slice/disagrees-with-list-semantics', f'[{a}:{b}:{c}] of {n}'
            # access must not disturb a later iteration
            if got != [fp_mol(m) for m in syst]:
                return 'iter/differs-after-indexing', ''
        return None, None

    @staticmethod
    def _first_diff(got, want):
        for k, (a, b) in enumerate(zip(got, want)):
            if a != b:
                return f'molecule {k}: got {a[0]} atoms {[x[0] for x in a[1]]}, file has {b[0]} atoms {[x[0] for x in b[1]]}'
        return ''

    # ------------------------------------------------------------------
    def _ghosts(self, seq, stream, present):
        out = []
        for s in LOADABLE:
            if s not in seq:
                out.append({'kind': 'absent', 'sp': s})
        kinds = set(stream)
        for pat in GHOST_SEQS:
            if set(pat) <= kinds and not contains_run(stream, pat):
                out.append({'kind': 'noseq', 'pat': list(pat)})
        for s in present:
            out.append({'kind': 'names', 'sp': s})
        res = []
        for g in out:
            for where in (('first', 'last') if len(seq) <= 4 else ('last',)):
                res.append(dict(g, where=where))
        return res

    def _ghost(self, cdesc, R, text, inst, stream, present):
        from gaddlemaps.components import System
        g = cdesc['ghost']
        if g['kind'] == 'absent':
            gtext = top_text(g['sp'], SPECIES[g['sp']])
        elif g['kind'] == 'noseq':
            gtext = top_text('GH', [(k, ATOMS_OF[k]) for k in g['pat']])
        else:
            res = [(rn, list(an)) for rn, an in SPECIES[g['sp']]]
            res[-1][1][-1] = 'QX'                      # last atom name differs from the file's
            gtext = top_text('GN', res)
        loaded = [] if g['where'] == 'first' else present
        sig = det = None
        try:
            syst = System(MemFile(text, 'c11.gro'),
                          *[MemFile(top_text(s, SPECIES[s]), s + '.itp') for s in loaded])
            pre = self._oracle(syst, inst, set(loaded), 0)[0]
        except Exception as exc:
            pre = 'exception'
        if pre:      # the system is already wrong before the refusal: reported by the loading cases
            R.case(cdesc, nontrivial=False, outcome='system wrong before the refused topology',
                   cls=f"ghost/{g['kind']}/{g['where']}")
            return
        try:
            syst.add_ftop(MemFile(gtext, 'ghost.itp'))
            outcome = 'accepted'
            sig, det = f"refuse/{g['kind']}/accepted", f'len={len(syst)} composition={dict(syst.composition)}'
        except Exception as exc:      # any exception type counts as "an error"
            outcome = 'refused:' + type(exc).__name__
            try:
                s2, d2 = self._oracle(syst, inst, set(loaded), 0)
            except Exception as exc2:
                s2, d2 = 'exception', f'{type(exc2).__name__}: {exc2}'
            if s2:
                sig, det = f"refuse/{g['kind']}/system-changed-by-refused-topology", f'{s2}: {d2}'
        R.case(cdesc, nontrivial=True, outcome=outcome, cls=f"ghost/{g['kind']}/{g['where']}")
        if sig:
            R.violation(sig, cdesc, det)


CHECK = C11()
