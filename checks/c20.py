"""C20 - command-line mapping equals the library workflow; discovery is deterministic.

(a) differential: gaddlemaps._cli.main() (patched sys.argv, in-process) against the library
    workflow on the shipped BMIM/BF4 box, same numpy seed, byte comparison of the outputs.
(b) discovery: a generated directory (three discoverable species, a start-topology-only species,
    distractors) under owned nondeterminism: the iteration order of the two file sets inside
    sort_molecules (``gaddlemaps._cli.set = PermutedSet``), the listing order of the candidate
    files (with the interpreter's own sets, order recorded), the subset of species given
    explicitly and the subset excluded.  Every execution is compared with the generator's
    ground truth.
"""
import contextlib
import inspect
import itertools
import json
import math
import os
import shutil
import subprocess
import sys
import warnings

import numpy as np

from mcx.build import Scratch, generic_points, gro_text, itp_text
from mcx.core import Check, REPO
from mcx.explore import Ctx, explore
from mcx.seams import patched, quiet_stdout

# ---------------------------------------------------------------------------
# (a) shipped box
DATA = ('system_bmimbf4_cg.gro', 'BMIM_CG.itp', 'BMIM_AA.gro', 'BMIM_AA.itp',
        'BF4_CG.itp', 'BF4_AA.gro', 'BF4_AA.itp')
SYS_A = 'system_bmimbf4_cg.gro'
TRIPLE_A = {'BMIM': ('BMIM_CG.itp', 'BMIM_AA.gro', 'BMIM_AA.itp'),
            'BF4': ('BF4_CG.itp', 'BF4_AA.gro', 'BF4_AA.itp')}
SPECIES_LISTS = (['BMIM', 'BF4'], ['BF4', 'BMIM'], ['BMIM'], ['BF4'])
SCALES_A = (None, 0.3, 1.0, 0.0, 1.5)     # None = flag absent; 0: every atom collapses onto its bead; 1.5: expands
STEPS = 2


# ---------------------------------------------------------------------------
# (b) generated directory
def _chain(n):
    return [(i, i + 1) for i in range(n - 1)]


def _atoms(prefix, resname, n, resid=1):
    return [(f'{prefix}{i + 1}', resname, resid) for i in range(n)]


DSPEC = {   # letter -> molecule name, start atoms, end atoms
    'P': ('PMOL', _atoms('A', 'PCG', 2), _atoms('C', 'PAA', 5)),
    # same residue name in both resolutions, different size
    # (for Q the START resolution is the finer one: 7 atoms -> 5)
    'Q': ('QMOL', _atoms('B', 'QRS', 7), _atoms('D', 'QRS', 5)),     # (as many end atoms as P: two candidate .gro of equal size)
    # two residues in both resolutions
    'R': ('RMOL', _atoms('E', 'RCA', 1) + _atoms('F', 'RCB', 2, 2),
          _atoms('G', 'RAA', 3) + _atoms('H', 'RAB', 4, 2)),
    'T': ('TMOL', _atoms('K', 'TCG', 2), None),                 # start topology only
    'X': ('XMOL', _atoms('L', 'XCG', 2), _atoms('M', 'XAA', 4)),  # not in the system
    # start topology only; its SECOND residue is of the kind R's first residue has (name RCA, one atom) and it stands
    # before the first R in the system: the first free RCA residue of the file is not the start of an R molecule
    'V': ('VMOL', _atoms('V', 'VCX', 2) + _atoms('E', 'RCA', 1, 2), None),
    'W': ('W', [('W', 'W', 1)], None),                          # solvent, no files
    # start topology whose residue signature (name, size) equals P's but whose atom names differ:
    # it matches no molecule of the system and must not disturb the discovery of P
    'Z': ('ZMOL', _atoms('Z', 'PCG', 2), None),
}
DISCOVERABLE = ('P', 'Q', 'R')
DIR_SPECIES = ('P', 'Q')          # the species of the one-directory-per-species layout
# file-name stem per species letter: R's files carry a version tag, i.e. a SECOND dot in the base name (R.v2_cg.itp)
STEM = {'R': 'R.v2'}


def fname(s, suffix):
    return STEM.get(s, s) + suffix
SYSTEM_SEQ = ('P', 'W', 'Q', 'V', 'R', 'T', 'P', 'Q', 'W', 'R', 'V', 'T', 'W')
TRUTH = {DSPEC[s][0]: {'top_CG': fname(s, '_cg.itp'), 'top_AA': fname(s, '_aa.itp'), 'coor_AA': fname(s, '_aa.gro')}
         for s in DISCOVERABLE}
VARIANTS = {
    # every candidate a user would get from `--auto dir/*`
    'B': ['P_aa.gro', 'P_aa.itp', 'P_cg.itp', 'P_one_cg.gro', 'Q_aa.gro', 'Q_aa.itp', 'Q_cg.itp',
          'R.v2_aa.gro', 'R.v2_aa.itp', 'R.v2_cg.itp', 'T_cg.itp', 'V_cg.itp', 'X_aa.gro', 'X_aa.itp', 'X_cg.itp', 'Z_cg.itp',
          'bad.gro', 'notes.txt', 'sys.gro', 'P_old.Itp', 'Q_backup.Gro', 'A_two_P_aa.gro'],
    # six files: one species, an orphan coordinate file, the start-only species, a malformed file
    'S': ['P_aa.gro', 'P_aa.itp', 'P_cg.itp', 'Q_aa.gro', 'T_cg.itp', 'bad.gro'],
}
VARIANT_SPECIES = {'B': ('P', 'Q', 'R'), 'S': ('P',)}


_GOOD = '    1PAA     C1    1   0.100   0.200   0.300\n'
_BOXL = '   1.00000   1.00000   1.00000\n'
BAD_KINDS = {    # contents of the malformed coordinate candidate bad.gro
    'count_too_big': 'broken file\n    9\n' + _GOOD + _BOXL,      # the default in every other unit
    'empty': '',
    'title_only': 'title\n',
    'nonint_count': 'title\n  abc\n' + _GOOD + _BOXL,
    'count_too_small': 'title\n    1\n' + _GOOD + _GOOD + _BOXL,
    'short_line': 'title\n    1\n    1PAA     C1    1   0.100   0.200\n' + _BOXL,
    'ragged_widths': 'title\n    2\n' + _GOOD + '    1PAA     C2    2   0.1000   0.2000   0.3000\n' + _BOXL,
    'no_box': 'title\n    1\n' + _GOOD,
    'bad_box': 'title\n    1\n' + _GOOD + '   a b c\n',
    'zero_atoms': 'title\n    0\n' + _BOXL,
    'blank_lines': '\n\n\n',
    'nonint_resid': 'title\n    1\n    xPAA     C1    1   0.100   0.200   0.300\n' + _BOXL,
    'pdb_like': 'ATOM      1  N   ALA A   1      11.104   6.134  -6.504  1.00  0.00           N\n' * 3,
    # a coordinate field that is not a number: on the current tree the ValueError of float()
    # escapes sort_molecules, and only for the set orders in which the file is reached before
    # every species has its coordinates (own signature, see FINDING below)
    'nonnumeric_coord': 'title\n    1\n    1PAA     C1    1   0.1x0   0.200   0.300\n' + _BOXL,
}


def write_directory(d, seed, bad='count_too_big'):
    """Write the generated directory; returns the system path."""
    def put(name, text):
        with open(os.path.join(d, name), 'w') as fh:
            fh.write(text)
    for i, (s, (name, cg, aa)) in enumerate(DSPEC.items()):
        if s == 'W':
            continue
        put(fname(s, '_cg.itp'), itp_text(name, cg, _chain(len(cg))))
        if aa is not None:
            put(fname(s, '_aa.itp'), itp_text(name, aa, _chain(len(aa))))
            pts = generic_points(len(aa), seed, tag=300 + i) * 0.4 + 2.0
            put(fname(s, '_aa.gro'), gro_text([(ri, rn, an, j + 1, pts[j]) for j, (an, rn, ri) in enumerate(aa)],
                                        title=f'{name} end resolution'))
    recs, resid, aid = [], 0, 0
    for k, s in enumerate(SYSTEM_SEQ):
        cg = DSPEC[s][1]
        pts = generic_points(len(cg), seed, tag=320 + 'PQRTXWZV'.index(s)) * 0.4 + \
            np.array([0.8 + 0.55 * k, 1.1 + 0.31 * k, 0.9 + 0.43 * k])
        last = None
        for (an, rn, ri), p in zip(cg, pts):
            if ri != last:
                resid, last = resid + 1, ri
            aid += 1
            recs.append((resid, rn, an, aid, p))
    put('sys.gro', gro_text(recs, title='generated start-resolution system', box=(9.0, 9.0, 9.0)))
    cg = DSPEC['P'][1]
    pts = generic_points(len(cg), seed, tag=340) * 0.4 + 1.5
    put('P_one_cg.gro', gro_text([(1, rn, an, j + 1, pts[j]) for j, (an, rn, ri) in enumerate(cg)],
                                 title='one start-resolution molecule'))
    put('bad.gro', BAD_KINDS[bad])
    put('notes.txt', 'PMOL QMOL RMOL: see P_cg.itp P_aa.itp P_aa.gro\n')
    # two copies of P's end-resolution molecule in one file (e.g. a mapped system left by an earlier run): it is not
    # the coordinate file of ONE molecule and must not be taken for P's end coordinates, whatever is visited first
    aa = DSPEC['P'][2]
    pts2 = generic_points(2 * len(aa), seed, tag=355) * 0.5 + 3.0
    put('A_two_P_aa.gro', gro_text([(1 + j // len(aa), aa[j % len(aa)][1], aa[j % len(aa)][0], j + 1, pts2[j])
                                    for j in range(2 * len(aa))], title='two PMOL molecules'))
    # extensions in a spelling no parser is registered for: not candidates at all
    put('P_old.Itp', itp_text('PMOL', DSPEC['P'][1], _chain(len(DSPEC['P'][1]))))
    put('Q_backup.Gro', 'old\n    1\n    1QRS     D1    1   0.100   0.200   0.300\n' + _BOXL)
    return os.path.join(d, 'sys.gro')


@contextlib.contextmanager
def scratch_cwd(seed, bad='count_too_big'):
    """Generated directory as the working directory: candidate files are then named by relative
    paths, whose string hashes (hence the order of the interpreter's sets) do not depend on the
    random name of the scratch directory, so native-order executions replay exactly."""
    cwd = os.getcwd()
    with Scratch() as d:
        write_directory(d, seed, bad)
        os.chdir(d)
        try:
            yield '', 'sys.gro'
        finally:
            os.chdir(cwd)


def triple(d, s):
    """[start topology, end coordinates, end topology] as the --mol flag takes them."""
    return [os.path.join(d, fname(s, '_cg.itp')), os.path.join(d, fname(s, '_aa.gro')), os.path.join(d, fname(s, '_aa.itp'))]


def remaining(variant, explicit):
    """(topology files, coordinate files) left in the two sets after the known files are removed."""
    known = set()
    for s in explicit:
        known.update([fname(s, '_cg.itp'), fname(s, '_aa.gro'), fname(s, '_aa.itp')])
    files = [f for f in VARIANTS[variant] if f not in known]
    return ([f for f in files if f.endswith('.itp')], [f for f in files if f.endswith('.gro')])


# ---------------------------------------------------------------------------
# owned iteration order
class Skip(BaseException):
    """Raised inside the library to abandon an execution whose pair of orders was already run."""


def nth_permutation(items, idx):
    items = list(items)
    out = []
    for k in range(len(items), 0, -1):
        f = math.factorial(k - 1)
        out.append(items.pop(idx // f))
        idx %= f
    return out


def second_options(n, first):
    """Second transpositions after ``first``: overlapping ones, and disjoint ones with a higher index."""
    pairs = list(itertools.combinations(range(n), 2))
    a = pairs[first]
    return [q for i, q in enumerate(pairs) if q != a and (set(q) & set(a) or i > first)]


def pick_order(items, choose, kmax, kind):
    """Explorer-chosen permutation of the sorted order.  choose(n, tag) -> int in [0, n)."""
    n = len(items)
    if n <= 1:
        return list(items)
    if n <= kmax:
        return nth_permutation(items, choose(math.factorial(n), f'{kind}/perm{n}'))
    order = list(items)
    pairs = list(itertools.combinations(range(n), 2))
    c1 = choose(1 + len(pairs), f'{kind}/swap1of{n}')
    if c1:
        i, j = pairs[c1 - 1]
        order[i], order[j] = order[j], order[i]
        opts = second_options(n, c1 - 1)
        c2 = choose(1 + len(opts), f'{kind}/swap2of{n}')
        if c2:
            i, j = opts[c2 - 1]
            order[i], order[j] = order[j], order[i]
    return order


def head_vectors(n, kmax, max_dev):
    """All choice vectors pick_order can consume for a set of n elements with <= max_dev deviations."""
    if n <= 1:
        return [[]]
    if n <= kmax:
        return [[c] for c in range(math.factorial(n) if max_dev >= 1 else 1)]
    npairs = n * (n - 1) // 2
    out = [[0]]
    if max_dev >= 1:
        for c1 in range(1, npairs + 1):
            out.append([c1, 0])
            if max_dev >= 2:
                out += [[c1, c2] for c2 in range(1, 1 + len(second_options(n, c1 - 1)))]
    return out


def n_orders(n, kmax, max_dev):
    """Raw executions explore() spends on one set of n elements within max_dev deviations."""
    return len(head_vectors(n, kmax, max_dev))


class OrderOwner:
    """Builds the ``set`` replacement for one execution and records the orders it produced."""

    def __init__(self, choose=None, kmax=4, head=None, seen=None, insertion=False):
        self.choose = choose          # None: native order (or insertion order), only recorded
        self.insertion = insertion    # model of a set that iterates in insertion order
        self.kmax = kmax
        self.head = {k: list(v) for k, v in (head or {}).items()}
        self.seen = seen
        self.log = []                 # (kind, tuple of basenames) per iteration
        owner = self

        class PermutedSet(set):
            def __init__(self, it=()):
                set.__init__(self)
                self._inserted = []
                for x in it:
                    self.add(x)

            def add(self, x):
                if x not in self:
                    self._inserted.append(x)
                    set.add(self, x)

            def remove(self, x):
                set.remove(self, x)
                self._inserted.remove(x)

            def discard(self, x):
                if x in self:
                    self.remove(x)

            def __iter__(self):
                native = list(set.__iter__(self))
                kind = owner.kind(native)
                if owner.choose is None:
                    order = list(self._inserted) if owner.insertion else native
                else:
                    order = pick_order(sorted(native), lambda n, tag: owner.take(kind, n, tag),
                                       owner.kmax, kind)
                owner.log.append((kind, tuple(os.path.basename(x) for x in order)))
                if owner.seen is not None and kind == 'coord' and len(owner.log) == 2:
                    key = tuple(owner.log)
                    if key in owner.seen:
                        raise Skip()
                    owner.seen.add(key)
                return iter(order)
        self.cls = PermutedSet

    @staticmethod
    def kind(items):
        exts = {str(x).rsplit('.', 1)[-1].lower() for x in items}
        return 'topo' if exts == {'itp'} else ('coord' if exts == {'gro'} else 'other')

    def take(self, kind, n, tag):
        pre = self.head.get(kind)
        if pre:
            c = pre.pop(0)
            if 0 <= c < n:
                return c
        return self.choose(n, tag)

    def orders(self):
        return tuple(self.log)


# ---------------------------------------------------------------------------
def normalise(result):
    return {str(k): {str(a): os.path.basename(str(b)) for a, b in v.items()} for k, v in result.items()}


def judge_assignment(result, variant, explicit):
    """Compare a sort_molecules result with the ground truth.  Returns (signature, detail) or None."""
    got = normalise(result)
    here = VARIANT_SPECIES[variant]
    for s in DISCOVERABLE:
        name = DSPEC[s][0]
        ent = got.get(name)
        if s in explicit:
            if ent is not None and len(ent) == 3:
                return 'discovery/explicit-species-added-again', f'{name}: {ent}'
        elif s in here:
            if ent != TRUTH[name]:
                return ('discovery/wrong-or-missing-triple', f'{name}: got {ent}, expected {TRUTH[name]}')
        elif ent is not None and len(ent) >= 3:
            return 'discovery/complete-entry-for-undiscoverable-species', f'{name}: {ent}'
    for name, ent in got.items():
        if name in TRUTH:
            continue
        if len(ent) >= 3 or 'coor_AA' in ent or 'top_AA' in ent:
            return 'discovery/files-assigned-to-species-without-end-resolution', f'{name}: {ent}'
        if name == 'TMOL' and ent.get('top_CG', 'T_cg.itp') != 'T_cg.itp':
            return 'discovery/wrong-start-topology', f'{name}: {ent}'
    return None


def outcome_label(result):
    got = normalise(result)
    return ','.join(f'{k}:{len(v)}' for k, v in sorted(got.items())) or 'empty'


class C20(Check):
    pid = 'C20'
    level = 'model_checking'
    rule = ('(a) case = (species list, scale flag, output flag, numpy seed) on the shipped BMIM/BF4 box; '
            '(b) case = one execution of sort_molecules / main() on the generated directory, identified by '
            '(file-list variant, species given explicitly, excluded species, listing order, choice vector of the '
            'two owned set iterations); distinct by descriptor, executions whose pair of iteration orders was '
            'already run in the same unit are abandoned and not counted; non-trivial = at least one species was '
            'discovered from the candidate files, or (a) an output file was produced and compared byte for byte')
    technique = ('differential execution CLI vs library under a shared numpy seed; stateless choice-point '
                 'exploration (mcx.explore, prefix replay, deviation bound) of the iteration order of both file '
                 'sets injected as gaddlemaps._cli.set; permutation of the listing order under two set models '
                 '(the interpreter\'s set with the order recorded, an insertion-ordered set); ground-truth oracle on '
                 'every execution; fresh-interpreter hash-seed cross-check')
    level_text = ('the real sort_molecules/main are executed under every iteration order of the topology and '
                  'coordinate sets within the stated bounds (all permutations of sets of <= 4/5 files; beyond, '
                  '<= 2 arbitrary transpositions of the sorted order per set and <= 2 (quick) / 3 (thorough) '
                  'deviations over both sets), for all 8 subsets of explicit species, all 27 explicit/excluded '
                  'combinations, 14 kinds of malformed coordinate candidate, all 720 listing orders of a 6-file '
                  'list and <= 2/3 adjacent transpositions of the 17-file list; the explicit pipeline is compared '
                  'byte for byte with the library workflow on the shipped box')
    level_note = ('trusted: the directory generator and its ground truth, numpy seeding as the only randomness of '
                  'the python alignment engine (no compiled backend installed); orders farther than 2 '
                  'transpositions per set from sorted order are covered only for sets of <= 4 (quick) / 5 (thorough) '
                  'files; ambiguous directories (a topology loadable in both resolutions, repeated topologies) and '
                  'candidate .itp files without a [ moleculetype ] section (a force-field include makes discovery '
                  'raise OSError for every order - deterministic, not covered by the statement) are outside')
    assumptions = ['Alignment.STEPS_FACTOR = 2 on both sides of the differential (class attribute)',
                   'CLI run in-process with patched sys.argv; numpy global seed set before each side',
                   'generated directory is unambiguous: end topologies cannot be loaded against the start system, '
                   'every end coordinate file loads with exactly one end topology',
                   'set iteration order owned through the module global `set` of gaddlemaps._cli; the listing order '
                   'is explored with the interpreter sets under PYTHONHASHSEED=0 and relative file names (the '
                   'generated directory is the working directory, so string hashes do not depend on the scratch '
                   'path and every execution replays) and with an insertion-ordered set model',
                   'exclusion is enumerated over species that are not given explicitly']

    # ------------------------------------------------------------------
    def units(self, tier, seed):
        thorough = tier == 'thorough'
        kmax = 5 if thorough else 4
        max_dev = 3 if thorough else 2
        chunk_cost = 200 if thorough else 40
        self.bounds = {
            'differential': {'species_lists': [list(x) for x in SPECIES_LISTS], 'scales': ['absent', 0.3, 1.0, 0.0, 1.5],
                             'outputs': ['-o absolute', 'default', '-o relative (cwd is not the input folder)'] + (['default_relative_cwd'] if thorough else []),
                             'numpy_seeds': [0, 1] if thorough else [0], 'steps_factor': STEPS},
            'set_all_permutations_up_to': kmax, 'set_transpositions_beyond': 2, 'max_deviations': max_dev,
            'listing_all_permutations_up_to_files': 6,
            'listing_adjacent_transpositions_beyond': 3 if thorough else 2,
            'listing_set_models': ['interpreter set (order recorded)', 'insertion-ordered set'],
            'malformed_coordinate_kinds': list(BAD_KINDS),
            'explicit_subsets': 8, 'explicit_x_excluded': 27,
            'explicit_files_spelled_differently_from_candidates': "'./name' vs 'name', every non-empty explicit subset",
            'distractors': ['X (species not in the system)', 'T (start topology only)', 'Z (start topology with the residue '
                            'signature of P and other atom names)', 'single-molecule start .gro', 'malformed .gro', '.txt'],
            'hash_seeds': [0, 1, 2] if thorough else [],
        }
        u = []
        # (a)
        outs = ['given', 'default', 'given_rel'] + (['default_cwd'] if thorough else [])
        for sp in SPECIES_LISTS:
            for sc in SCALES_A:
                for o in outs:
                    for k in ([0, 1] if thorough else [0]):
                        u.append({'k': 'diff', 'cases': [{'k': 'diff', 'species': list(sp), 'scale': sc,
                                                         'out': o, 'npseed': k}]})
        for sp in (['BMIM', 'BF4'], ['BF4']):
            u.append({'k': 'diff', 'cases': [{'k': 'diff', 'species': list(sp), 'scale': None, 'out': 'given',
                                             'npseed': 0, 'renamed_end': 1}]})
        for sp in (['BMIM', 'BF4'], ['BF4']):
            u.append({'k': 'diff', 'cases': [{'k': 'diff', 'species': list(sp), 'scale': None, 'out': 'default_symlink',
                                             'npseed': 0}]})
        # a second run from the same process after an end-coordinate file was replaced under the same path
        for sp in (['BMIM', 'BF4'], ['BMIM']):
            for o in ('given', 'default'):
                u.append({'k': 'diff', 'cases': [{'k': 'diff', 'species': list(sp), 'scale': 0.3, 'out': o,
                                                 'npseed': 0, 'rerun': 1}]})
        # (b) iteration orders
        for variant in ('B', 'S'):
            sp = VARIANT_SPECIES[variant]
            for r in range(len(sp) + 1):
                for E in itertools.combinations(sp, r):
                    tops, coords = remaining(variant, E)
                    heads = head_vectors(len(tops), kmax, max_dev)
                    chunk, cost = [], 0
                    for h in heads:
                        dev = sum(1 for c in h if c)
                        c = n_orders(len(coords), kmax, max_dev - dev)
                        chunk.append(h)
                        cost += c
                        if cost >= chunk_cost:
                            u.append({'k': 'orders', 'cases': [{'k': 'orders', 'variant': variant, 'E': list(E),
                                                               'head': hh, 'kmax': kmax, 'dev': max_dev}
                                                              for hh in chunk]})
                            chunk, cost = [], 0
                    if chunk:
                        u.append({'k': 'orders', 'cases': [{'k': 'orders', 'variant': variant, 'E': list(E),
                                                           'head': hh, 'kmax': kmax, 'dev': max_dev}
                                                          for hh in chunk]})
        # (b) kinds of malformed coordinate candidate x single transpositions of the coordinate set
        for kind in BAD_KINDS:
            u.append({'k': 'orders', 'cases': [{'k': 'orders', 'variant': 'B', 'E': [], 'head': [0],
                                               'kmax': kmax, 'dev': 1, 'bad': kind}]})
        # (b) explicit species named by another spelling of the same path than in the candidate list
        for variant in ('B', 'S'):
            sp = VARIANT_SPECIES[variant]
            for r in range(1, len(sp) + 1):
                for E in itertools.combinations(sp, r):
                    u.append({'k': 'orders', 'cases': [{'k': 'orders', 'variant': variant, 'E': list(E), 'head': [0],
                                                       'kmax': kmax, 'dev': 1, 'spell': 1}]})
        # (b) listing order, interpreter sets
        perms = math.factorial(len(VARIANTS['S']))
        for E in ([], ['P']):
            for lo in range(0, perms, 48):
                u.append({'k': 'listing', 'cases': [{'k': 'listperm', 'variant': 'S', 'E': E,
                                                     'lo': lo, 'hi': min(lo + 48, perms)}]})
        for r in range(4):
            for E in itertools.combinations(DISCOVERABLE, r):
                u.append({'k': 'listing', 'cases': [{'k': 'listswap', 'variant': 'B', 'E': list(E),
                                                     'dev': 3 if thorough else 2}]})
        # (b) main(): explicit x excluded
        for r in range(4):
            for E in itertools.combinations(DISCOVERABLE, r):
                rest = [s for s in DISCOVERABLE if s not in E]
                cs = []
                for rr in range(len(rest) + 1):
                    for X in itertools.combinations(rest, rr):
                        cs.append({'k': 'main', 'E': list(E), 'X': list(X), 'kmax': kmax})
                        if E:
                            cs.append({'k': 'main', 'E': list(E), 'X': list(X), 'kmax': kmax, 'spell': 1})
                            # --exclude names a species that is ALSO given explicitly: exclusion is about what the
                            # discovery finds (the tool's help says so); the explicit triple is mapped all the same
                            cs.append({'k': 'main', 'E': list(E), 'X': list(X) + [E[0]], 'kmax': kmax})
                u.append({'k': 'main', 'cases': cs})
        # one directory per species, the three files called the same in each (P/cg.itp, Q/cg.itp, ...): every subset given
        # explicitly, every order of the candidate list
        dcs = []
        for r in range(len(DIR_SPECIES) + 1):
            for E in itertools.combinations(DIR_SPECIES, r):
                for perm in (range(720) if thorough else range(0, 720, 30)):
                    dcs.append({'k': 'dirs', 'E': list(E), 'perm': perm})
        self.bounds['per_species_directories'] = {'species': list(DIR_SPECIES), 'explicit_subsets': 4,
                                                               'listing_orders': 720 if thorough else 24}
        u.append({'k': 'dirs', 'cases': dcs})
        if thorough:
            for hs in (0, 1, 2):
                u.append({'k': 'hashseed', 'cases': [{'k': 'hashseed', 'hashseed': hs, 'E': E}
                                                     for E in ([], ['Q'])]})
        return u

    def cases(self, unit, tier, seed):
        return iter(unit['cases'])

    # ------------------------------------------------------------------
    def check_case(self, case, R, seed):
        warnings.simplefilter('ignore')
        # SystemGro.__del__ of a half-built object (malformed candidate file) prints an
        # "Exception ignored in" message; it is not an error of the call under test
        sys.unraisablehook = lambda *a: None
        getattr(self, '_' + case['k'])(case, R, seed)

    # -- (a) ---------------------------------------------------------------
    def _diff(self, case, R, seed):
        import gaddlemaps._cli as cli
        from gaddlemaps import Alignment, Manager
        from gaddlemaps.components import Molecule
        cwd = os.getcwd()
        with Scratch() as top:
            d = os.path.join(top, 'box')
            os.mkdir(d)
            for f in DATA:
                shutil.copy(os.path.join(REPO, 'gaddlemaps', 'data', f), d)
            rel = case['out'] == 'default_cwd'
            p = (lambda f: f) if rel else (lambda f: os.path.join(d, f))
            triples = {k: list(v) for k, v in TRIPLE_A.items()}
            if case.get('renamed_end'):
                # explicit triples need not carry the same molecule name in both topologies (only --auto does)
                with open(os.path.join(d, 'BF4_AA.itp')) as fh:
                    txt = fh.read()
                lines = txt.split('\n')
                at = next(i for i, ln in enumerate(lines) if 'moleculetype' in ln)
                at = next(i for i in range(at + 1, len(lines)) if lines[i].strip() and not lines[i].lstrip().startswith(';'))
                assert 'BF4' in lines[at]
                lines[at] = lines[at].replace('BF4', 'TFB')          # the molecule NAME only, not the residue names
                with open(os.path.join(d, 'TFB_AA.itp'), 'w') as fh:
                    fh.write('\n'.join(lines))
                triples['BF4'][2] = 'TFB_AA.itp'
            for phase in range(2 if case.get('rerun') else 1):
                if case.get('rerun'):
                    case = dict(case, phase=phase)
                if phase == 1:
                    # SECOND command-line run from the same process after the end coordinates of BMIM were replaced
                    # on disk under the same path (a stretched conformation): it maps what is in the files NOW
                    for f in (expected, os.path.join(top, 'lib_out.gro')):
                        if os.path.exists(f):
                            os.remove(f)
                    path = os.path.join(d, 'BMIM_AA.gro')
                    with open(path) as fh:
                        gl = fh.read().split('\n')
                    nat = int(gl[1])
                    for k in range(2, 2 + nat):
                        xyz = [float(gl[k][20 + 8 * c:28 + 8 * c]) for c in range(3)]
                        gl[k] = gl[k][:20] + ''.join('%8.3f' % (1.0 + 1.25 * (v - 1.0)) for v in xyz) + gl[k][44:]
                    with open(path, 'w') as fh:
                        fh.write('\n'.join(gl))
                sys_in = p(SYS_A)
                if case['out'] == 'default_symlink':
                    # the input is a symbolic link (another name, another folder) to the coordinate file
                    os.makedirs(os.path.join(top, 'linked'), exist_ok=True)
                    sys_in = os.path.join(top, 'linked', 'frame.gro')
                    if not os.path.lexists(sys_in):
                        os.symlink(os.path.join(d, SYS_A), sys_in)
                argv = ['gaddlemaps', sys_in]
                for s in case['species']:
                    argv += ['--mol'] + [p(f) for f in triples[s]]
                if case['scale'] is not None:
                    argv += ['--scale', repr(case['scale'])]
                workdir = None
                if case['out'] == 'given':
                    expected = os.path.join(top, 'requested', 'cli_out.gro')
                    os.makedirs(os.path.dirname(expected), exist_ok=True)
                    argv += ['-o', expected]
                elif case['out'] == 'given_rel':
                    # a relative -o is relative to the working directory, which is not the input's folder
                    workdir = os.path.join(top, 'work')
                    os.makedirs(workdir, exist_ok=True)
                    expected = os.path.join(workdir, 'rel_out.gro')
                    argv += ['-o', 'rel_out.gro']
                elif case['out'] == 'default_symlink':
                    expected = os.path.join(top, 'linked', 'mapped_frame.gro')       # beside the INPUT, named after it
                else:
                    expected = os.path.join(d, 'mapped_' + SYS_A)

                def snapshot():
                    return {os.path.relpath(os.path.join(a, f), top) for a, _, fs in os.walk(top) for f in fs}
                before = snapshot()
                err = None
                try:
                    if rel:
                        os.chdir(d)
                    elif workdir:
                        os.chdir(workdir)
                    np.random.seed(case['npseed'])
                    with patched(Alignment, 'STEPS_FACTOR', STEPS), patched(sys, 'argv', argv), quiet_stdout():
                        cli.main()
                except (Exception, SystemExit) as e:
                    err = e
                finally:
                    os.chdir(cwd)
                created = snapshot() - before
                cls = f"diff/{len(case['species'])}sp/scale-{case['scale']}/{case['out']}"
                if err is not None:
                    R.case(case, nontrivial=False, cls=cls, outcome=f'cli-raised:{type(err).__name__}')
                    R.violation('cli/exception', case, repr(err)[:400])
                    return
                want = {os.path.relpath(expected, top)}
                if created != want:
                    R.case(case, nontrivial=False, cls=cls, outcome='cli-wrong-files')
                    sig = 'cli/output-not-at-expected-path' if not os.path.exists(expected) else 'cli/extra-files-created'
                    R.violation(sig, case, f'created {sorted(created)}, expected {sorted(want)}')
                    return
                with open(expected, 'rb') as fh:
                    cli_bytes = fh.read()
                # library workflow
                q = lambda f: os.path.join(d, f)
                lib_out = os.path.join(top, 'lib_out.gro')
                np.random.seed(case['npseed'])
                with patched(Alignment, 'STEPS_FACTOR', STEPS), quiet_stdout():
                    man = Manager.from_files(q(SYS_A), *[q(triples[s][0]) for s in case['species']])
                    if case.get('renamed_end'):
                        for s in case['species']:          # attached to the species named by the START topology
                            man.molecule_correspondence[s].end = Molecule.from_files(q(triples[s][1]), q(triples[s][2]))
                    else:
                        man.add_end_molecules(*[Molecule.from_files(q(triples[s][1]), q(triples[s][2]))
                                                for s in case['species']])
                    man.align_molecules()
                    if case['scale'] is None:
                        man.calculate_exchange_maps()
                    else:
                        man.calculate_exchange_maps(case['scale'])
                    man.extrapolate_system(lib_out)
                with open(lib_out, 'rb') as fh:
                    lib_bytes = fh.read()
                same = cli_bytes == lib_bytes
                R.case(case, nontrivial=len(cli_bytes) > 100, cls=cls,
                       outcome='identical' if same else 'differs')
                R.traces += 1
                if not same:
                    a, b = cli_bytes.split(b'\n'), lib_bytes.split(b'\n')
                    first = next((i for i, (x, y) in enumerate(zip(a, b)) if x != y), min(len(a), len(b)))
                    R.violation('cli/output-differs-from-library', case,
                                f'{len(a)} vs {len(b)} lines; first difference at line {first + 1}: '
                                f'{a[first:first + 1]} vs {b[first:first + 1]}')

    def _dirs(self, case, R, seed):
        """Discovery in a layout with one directory per species whose files carry the same base names."""
        import gaddlemaps._cli as cli
        E = case['E']
        cwd = os.getcwd()
        with Scratch() as d:
            def put(name, text):
                os.makedirs(os.path.dirname(os.path.join(d, name)), exist_ok=True)
                with open(os.path.join(d, name), 'w') as fh:
                    fh.write(text)
            files = []
            for i, sp in enumerate(DIR_SPECIES):
                name, cg, aa = DSPEC[sp]
                put(f'{sp}/cg.itp', itp_text(name, cg, _chain(len(cg))))
                put(f'{sp}/aa.itp', itp_text(name, aa, _chain(len(aa))))
                pts = generic_points(len(aa), seed, tag=300 + i) * 0.4 + 2.0
                put(f'{sp}/aa.gro', gro_text([(ri, rn, an, j + 1, pts[j]) for j, (an, rn, ri) in enumerate(aa)],
                                             title=f'{name} end resolution'))
                files += [f'{sp}/cg.itp', f'{sp}/aa.gro', f'{sp}/aa.itp']
            recs, resid, aid = [], 0, 0
            for k, sp in enumerate(('P', 'W', 'Q', 'P', 'Q', 'W')):
                cg = DSPEC[sp][1]
                pts = generic_points(len(cg), seed, tag=320 + 'PQRTXWZV'.index(sp)) * 0.4 + \
                    np.array([0.8 + 0.55 * k, 1.1 + 0.31 * k, 0.9 + 0.43 * k])
                resid += 1
                for (an, rn, ri), pnt in zip(cg, pts):
                    aid += 1
                    recs.append((resid, rn, an, aid, pnt))
            put('sys.gro', gro_text(recs, title='per-species directories', box=(9.0, 9.0, 9.0)))
            listing = nth_permutation(files, case['perm'] % math.factorial(len(files)))
            known = [[f'{sp}/cg.itp', f'{sp}/aa.gro', f'{sp}/aa.itp'] for sp in E]
            os.chdir(d)
            try:
                with quiet_stdout():
                    res = cli.sort_molecules('sys.gro', listing + ['sys.gro'], known)
                err = None
            except Exception as exc:
                res, err = None, exc
            finally:
                os.chdir(cwd)
        cls = f'dirs/explicit{len(E)}'
        if err is not None:
            R.case(case, nontrivial=False, cls=cls, outcome='raised')
            R.violation(f'discovery/per-species-directories/exception/{type(err).__name__}', case, repr(err)[:300])
            return
        got = {k: dict(v) for k, v in res.items()}
        R.case(case, nontrivial=len(E) < len(DIR_SPECIES), cls=cls, outcome=f'found:{len(got)}')
        for sp in DIR_SPECIES:
            name = DSPEC[sp][0]
            want = {'top_CG': f'{sp}/cg.itp', 'coor_AA': f'{sp}/aa.gro', 'top_AA': f'{sp}/aa.itp'}
            ent = got.get(name)
            if sp in E:
                if ent is not None and len(ent) == 3:
                    R.violation('discovery/per-species-directories/explicit-species-added-again', case, f'{name}: {ent}')
                    return
            elif ent != want:
                R.violation('discovery/per-species-directories/wrong-or-missing-triple', case,
                            f'{name}: got {ent}, expected {want}')
                return

    # -- (b) helpers ---------------------------------------------------------
    _spell = None        # './' : explicit files are named by another spelling of the same path

    def _sort(self, d, sysf, variant, E, listing, owner):
        """One execution of the real sort_molecules; returns ('ok', result) | ('dup', None) | ('exc', e)."""
        import gaddlemaps._cli as cli
        files = [os.path.join(d, f) for f in listing]
        known = [triple(self._spell or d, s) for s in E]
        try:
            with patched(cli, 'set', owner.cls), quiet_stdout():
                return 'ok', cli.sort_molecules(sysf, files, known)
        except Skip:
            return 'dup', None
        except Exception as e:
            return 'exc', e

    def _record(self, R, desc, variant, E, status, res, owner, cls, states):
        if status == 'dup':
            R.add('duplicate_order_pairs_skipped')
            return
        R.traces += 1
        R.transitions += len(owner.log)
        key = owner.orders()
        if key not in states:
            states.add(key)
            R.states += 1
        if status == 'exc':
            R.case(desc, nontrivial=False, cls=cls, outcome=f'raised:{type(res).__name__}')
            if desc.get('bad', 'count_too_big') != 'count_too_big':
                R.violation(f'discovery/malformed-coordinate-candidate-not-skipped/{type(res).__name__}', desc,
                            repr(res)[:300] + f' | orders {key}')
            else:
                R.violation(f'discovery/exception/{type(res).__name__}', desc, repr(res)[:300])
            return
        bad = judge_assignment(res, variant, E)
        found = any(len(v) == 3 for v in res.values())
        R.case(desc, nontrivial=found, cls=cls, outcome=outcome_label(res))
        if bad:
            R.violation(bad[0], desc, bad[1] + f' | orders {key}')

    # -- (b) iteration orders ---------------------------------------------------
    def _orders(self, case, R, seed):
        self._spell = './' if case.get('spell') else None
        try:
            self._orders2(case, R, seed)
        finally:
            self._spell = None

    def _orders2(self, case, R, seed):
        variant, E = case['variant'], case['E']
        cls = f"orders/{variant}/explicit{len(E)}" + (f"/bad.gro={case['bad']}" if 'bad' in case else '') + \
            ('/explicit-spelled-differently' if case.get('spell') else '')
        states = set()
        seen = set()
        with scratch_cwd(seed, case.get('bad', 'count_too_big')) as (d, sysf):
            listing = VARIANTS[variant]
            dev_head = sum(1 for c in case['head'] if c)

            def run(ctx):
                owner = OrderOwner(ctx.choose, case['kmax'], {'topo': case['head']},
                                   None if 'choices' in case else seen)
                st, res = self._sort(d, sysf, variant, E, listing, owner)
                ctx.data['owner'] = owner
                return st, res

            def on_exec(ctx, obs, cut):
                desc = dict(case, choices=list(ctx.trace))
                self._record(R, desc, variant, E, obs[0], obs[1], ctx.data['owner'], cls, states)
            if 'choices' in case:
                ctx = Ctx(case['choices'])
                on_exec(ctx, run(ctx), False)
            else:
                explore(run, max(case['dev'] - dev_head, 0), on_exec)

    # -- (b) listing order, interpreter sets ---------------------------------------
    def _listperm(self, case, R, seed):
        variant, E = case['variant'], case['E']
        base = VARIANTS[variant]
        states = set()
        with scratch_cwd(seed) as (d, sysf):
            idxs = [case['perm']] if 'perm' in case else range(case['lo'], case['hi'])
            for idx in idxs:
                listing = nth_permutation(base, idx)
                for ins in ([case['ins']] if 'ins' in case else [False, True]):
                    owner = OrderOwner(None, insertion=ins)
                    st, res = self._sort(d, sysf, variant, E, listing, owner)
                    self._record(R, dict(case, perm=idx, ins=ins), variant, E, st, res, owner,
                                 f'listing/{variant}/explicit{len(E)}/{"insertion" if ins else "native"}', states)

    def _listswap(self, case, R, seed):
        variant, E = case['variant'], case['E']
        base = VARIANTS[variant]
        states = set()
        with scratch_cwd(seed) as (d, sysf):
            # the set model (interpreter order / insertion order) is not a deviation: the
            # adjacent swaps of the listing are explored separately under each model
            for ins in ([case['ins']] if 'ins' in case else [False, True]):
                sub = dict(case, ins=ins)
                cls = f'listing/{variant}/explicit{len(E)}/{"insertion" if ins else "native"}'

                def run(ctx):
                    listing = list(base)
                    for i in range(len(listing) - 1):
                        if ctx.choose(2, f'swap{i}'):
                            listing[i], listing[i + 1] = listing[i + 1], listing[i]
                    owner = OrderOwner(None, insertion=ins)
                    ctx.data['owner'] = owner
                    return self._sort(d, sysf, variant, E, listing, owner)

                def on_exec(ctx, obs, cut):
                    self._record(R, dict(sub, choices=list(ctx.trace)), variant, E, obs[0], obs[1],
                                 ctx.data['owner'], cls, states)
                if 'choices' in case:
                    ctx = Ctx(case['choices'])
                    on_exec(ctx, run(ctx), False)
                    continue
                explore(run, case['dev'], on_exec)
                # two named far orders (they carry the explicit listing for the replay)
                for name, listing in (('reversed', base[::-1]),
                                      ('by_extension', sorted(base, key=lambda f: f[::-1]))):
                    owner = OrderOwner(None, insertion=ins)
                    st, res = self._sort(d, sysf, variant, E, listing, owner)
                    self._record(R, dict(sub, k='listfixed', listing=listing), variant, E, st, res,
                                 owner, f'listing/{variant}/{name}', states)

    def _listfixed(self, case, R, seed):
        with scratch_cwd(seed) as (d, sysf):
            owner = OrderOwner(None, insertion=bool(case.get('ins')))
            st, res = self._sort(d, sysf, case['variant'], case['E'], case['listing'], owner)
            self._record(R, case, case['variant'], case['E'], st, res, owner, 'listing/fixed', set())

    # -- (b) main() -----------------------------------------------------------------
    def _main(self, case, R, seed):
        import gaddlemaps._cli as cli
        E, X = case['E'], case['X']
        modes = [case['order']] if 'order' in case else ['sorted', 'last', 'native']
        with scratch_cwd(seed) as (d, sysf):
            listing = [os.path.join(d, f) for f in VARIANTS['B']]
            out = 'requested_out.gro'
            for mode in modes:
                desc = dict(case, order=mode)
                if mode == 'native':
                    owner = OrderOwner(None)
                else:
                    owner = OrderOwner((lambda n, tag: 0) if mode == 'sorted' else (lambda n, tag: n - 1),
                                       case['kmax'])
                argv = ['gaddlemaps', sysf]
                for s in E:
                    argv += ['--mol'] + triple('./' if case.get('spell') else d, s)
                argv += ['--auto'] + listing
                if X:
                    argv += ['--exclude'] + [DSPEC[s][0] for s in X]
                argv += ['--scale', '0.7', '-o', out]
                calls = []
                orig = cli.auto_map

                def recorder(*a, **k):
                    calls.append(inspect.signature(orig).bind(*a, **k))
                err = None
                try:
                    with patched(cli, 'set', owner.cls), patched(cli, 'auto_map', recorder), \
                            patched(sys, 'argv', argv), quiet_stdout():
                        cli.main()
                except (Exception, SystemExit) as e:
                    err = e
                cls = f'main/explicit{len(E)}/excluded{len(X)}' + ('/spelled-differently' if case.get('spell') else '')
                R.traces += 1
                R.states += 1
                R.transitions += len(owner.log)
                if err is not None:
                    R.case(desc, nontrivial=False, cls=cls, outcome=f'raised:{type(err).__name__}')
                    R.violation(f'main/exception/{type(err).__name__}', desc, repr(err)[:300])
                    continue
                if len(calls) != 1:
                    R.case(desc, nontrivial=False, cls=cls, outcome=f'auto_map-calls:{len(calls)}')
                    R.violation('main/auto_map-not-called-once', desc, f'{len(calls)} calls')
                    continue
                args = calls[0].arguments
                got = sorted(tuple(os.path.basename(str(x)) for x in sp) for sp in args.get('species', ()))
                want = sorted(tuple(os.path.basename(x) for x in triple(d, s))
                              for s in DISCOVERABLE if s not in X or s in E)
                R.case(desc, nontrivial=len(E) < 3, cls=cls, outcome=f'handed:{len(got)}')
                if got != want:
                    counts = {s: sum(1 for g in got if g[:1] == (fname(s, '_cg.itp'),)) for s in DISCOVERABLE}
                    if any(counts[s] for s in X if s not in E):
                        sig = 'main/excluded-species-mapped'
                    elif any(counts[s] > 1 for s in DISCOVERABLE):
                        sig = 'main/species-handed-more-than-once'
                    elif any(counts[s] == 0 for s in DISCOVERABLE if s not in X or s in E):
                        sig = 'main/species-missing-from-mapping'
                    else:
                        sig = 'main/wrong-file-triple'
                    R.violation(sig, desc, f'handed {got}, expected {want}')
                    continue
                if str(args.get('refrence_coordinates', list(args.values())[0])) != sysf:
                    R.violation('main/system-file-not-forwarded', desc, str(args))
                elif args.get('scale') != 0.7:
                    R.violation('main/scale-not-forwarded', desc, str(args.get('scale')))
                elif args.get('outfile') != out:
                    R.violation('main/outfile-not-forwarded', desc, str(args.get('outfile')))

    # -- hash seeds -----------------------------------------------------------------
    def _hashseed(self, case, R, seed):
        E = case['E']
        with scratch_cwd(seed) as (d, sysf):
            code = (
                'import sys, json, os, warnings\n'
                'warnings.simplefilter("ignore")\n'
                'sys.unraisablehook = lambda *a: None\n'
                f'sys.path.insert(0, {REPO!r})\n'
                'import io, contextlib\n'
                'import gaddlemaps._cli as cli\n'
                'log = []\n'
                'class RecSet(set):\n'
                '    def __iter__(self):\n'
                '        o = list(set.__iter__(self)); log.append([os.path.basename(x) for x in o]); return iter(o)\n'
                'cli.set = RecSet\n'
                'a = json.loads(sys.argv[1])\n'
                'with contextlib.redirect_stdout(io.StringIO()):\n'
                '    r = cli.sort_molecules(a["sys"], a["files"], a["known"])\n'
                'print(json.dumps({"result": r, "orders": log}))\n')
            arg = json.dumps({'sys': sysf, 'files': [os.path.join(d, f) for f in VARIANTS['B']],
                              'known': [triple(d, s) for s in E]})
            env = dict(os.environ, PYTHONHASHSEED=str(case['hashseed']), PYTHONDONTWRITEBYTECODE='1')
            p = subprocess.run([sys.executable, '-W', 'ignore', '-c', code, arg], env=env,
                               capture_output=True, text=True, cwd=os.getcwd())
            cls = f'hashseed/{case["hashseed"]}'
            R.traces += 1
            if p.returncode != 0:
                R.case(case, nontrivial=False, cls=cls, outcome='subprocess-failed')
                R.violation('discovery/exception/fresh-interpreter', case, p.stderr[-600:])
                return
            data = json.loads(p.stdout.strip().split('\n')[-1])
            R.states += 1
            R.transitions += len(data['orders'])
            bad = judge_assignment(data['result'], 'B', E)
            R.case(case, nontrivial=True, cls=cls,
                   outcome=outcome_label(data['result']) + '|' + '/'.join(o[0] for o in data['orders'] if o))
            if bad:
                R.violation(bad[0], case, bad[1] + f' | orders {data["orders"]}')


CHECK = C20()
