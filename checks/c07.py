"""C07 - single-atom move restores every bond length on acyclic molecules.

Enumerated completely (no sampling): every labelled tree on 2..N atoms (Pruefer),
every moved atom, a displacement alphabet, two bond tables, forests, every connected
cyclic graph on 3..M vertices, deterministic large families, and for
find_atom_random_displ every answer of the three owned random draws.
"""
import itertools

import numpy as np

from mcx import enum as en
from mcx.build import generic_points
from mcx.core import Check
from mcx.explore import explore
from mcx.seams import owned_random

DISPL = ('generic', 'along_bond', 'tiny', 'large', 'zero', 'almost_onto')     # zero: the bonds must still be restored to the table
# geom_rev: neighbour lists in reverse (descending) order; fixed_keysdesc: the dictionary filled from the last atom to
# the first (its keys do not iterate as 0, 1, 2, ...)
TABLES = ('geom', 'fixed', 'geom_rev', 'fixed_keysdesc')


def bonds_table(n, edges, pos, table):
    info = {i: [] for i in range(n)}
    if table.endswith('_rev'):
        return {i: v[::-1] for i, v in bonds_table(n, edges, pos, table[:-4]).items()}
    if table.endswith('_keysdesc'):
        t = bonds_table(n, edges, pos, table[:-9])
        return {i: t[i] for i in sorted(t, reverse=True)}
    for a, b in edges:
        if table == 'geom':
            ln = float(np.linalg.norm(pos[a] - pos[b]))
        else:
            ln = 0.11 + 0.013 * ((3 * a + 5 * b) % 7)
        info[a].append((b, ln))
        info[b].append((a, ln))
    return {i: v for i, v in info.items() if v}


def displacement(kind, pos, adj, atom, seed):
    if kind == 'generic':
        rng = np.random.default_rng([seed, atom, 31])
        return rng.uniform(-0.3, 0.3, 3) + np.array([0.05, -0.07, 0.11])
    if kind == 'along_bond':
        nb = min(adj[atom])
        return 0.45 * (pos[nb] - pos[atom])
    if kind == 'almost_onto':          # lands 1e-9 bond lengths short of a bonded neighbour (not on it)
        nb = min(adj[atom])
        return (1.0 - 1e-9) * (pos[nb] - pos[atom])
    if kind == 'tiny':
        return np.array([1e-6, -2e-6, 1.5e-6])
    if kind == 'zero':
        return np.zeros(3)
    return np.array([5.0, -3.0, 4.0])


class _Positions(np.ndarray):
    """A user's ndarray subclass (np.asarray of an instance is a base-class VIEW of the same memory)."""


class C07(Check):
    pid = 'C07'
    level = 'exploration'
    rule = ('case = (graph, bond table, moved atom, displacement class) or (graph, atom, sigma, '
            'random-draw vector); all labelled trees by Pruefer sequence, all connected non-tree '
            'graphs, forests, large families; distinct by descriptor; non-trivial = the move '
            'repositioned at least one atom other than the moved one (bond restoration ran)')
    technique = ('exhaustive enumeration of all labelled trees / connected graphs x moved atom x displacement '
                 'alphabet on the real move_mol_atom; stateless choice-point exploration of the owned random draws')
    level_text = ('every labelled tree up to 6 (quick) / 7 (thorough) atoms, every moved atom, 4 displacement '
                  'classes, 4 bond tables (geometry, fixed, geometry with descending neighbour lists, fixed with the dictionary filled from the last atom to the first), the atom index as int and as numpy integer, a table edited in place between two moves, forests, every connected cyclic graph up to 5/6 vertices, 20/60-atom '
                  'families, and every answer of the random draws of find_atom_random_displ are executed on the '
                  'real code; a coverage statement over that finite space, not a proof for all reals')
    level_note = ('trusted: numpy arithmetic, the Pruefer/graph enumerators (self-tested against closed-form counts), '
                  'generic coordinates from a conditioned table; values outside the alphabets are not covered')
    assumptions = ['generic coordinates: conditioned table (separation >= 0.08 nm, sin >= 0.25), '
                   'selected by VERIF_SEED; displacements from a 4-class alphabet',
                   'find_atom_random_displ: helper vector in 2 values (3 where a draw almost parallel to the bond/line '
                   'exists in [0,1)^3), sign in 2, length in 2 (owned np.random)']

    def units(self, tier, seed):
        nmax = 7 if tier == 'thorough' else 6
        cyc = 6 if tier == 'thorough' else 5
        self.bounds = {'tree_atoms_max': nmax, 'cyclic_vertices_max': cyc,
                       'families': [20, 60], 'displ_tree_atoms_max': 5}
        u = []
        for n in range(2, nmax + 1):
            if n <= 5:
                u.append({'k': 'trees', 'n': n, 'pre': []})
            elif n == 6:
                u += [{'k': 'trees', 'n': n, 'pre': [a]} for a in range(n)]
            else:
                u += [{'k': 'trees', 'n': n, 'pre': [a, b]} for a in range(n) for b in range(n)]
        for n in range(3, cyc + 1):
            if n <= 4:
                u.append({'k': 'cyclic', 'n': n, 'mod': 1, 'r': 0})
            else:
                m = 8 if n == 5 else 96
                u += [{'k': 'cyclic', 'n': n, 'mod': m, 'r': r} for r in range(m)]
        u.append({'k': 'forest'})
        for fam in ('chain', 'star', 'caterpillar', 'binary_tree'):
            for n in (20, 60):
                u.append({'k': 'family', 'fam': fam, 'n': n})
        for n in range(2, 6):
            u.append({'k': 'displ', 'n': n})
        u.append({'k': 'randatom'})
        u.append({'k': 'single'})
        self.bounds['unbonded_atoms'] = 'the one-atom tree and a lone atom next to a 2-/3-atom tree (bond table entry [])'
        u.append({'k': 'edit', 'nmax': 5})
        self.bounds['table_edit_history'] = ('every tree up to 5 atoms x every moved atom: move, move again from the same '
                                             'input, move a view of a result, move an ndarray-subclass instance, two '
                                             'RAISING calls each followed by a move of another molecule, then the SAME '
                                             'table object is edited in place (all lengths x 1.25), move again')
        return u

    def cases(self, unit, tier, seed):
        k = unit['k']
        if k == 'trees':
            n, pre = unit['n'], unit['pre']
            for rest in itertools.product(range(n), repeat=max(n - 2 - len(pre), 0)):
                edges = en.prufer_to_edges(tuple(pre) + rest, n)
                for table in TABLES:
                    yield {'k': 'move', 'n': n, 'edges': edges, 'table': table}
        elif k == 'cyclic':
            n = unit['n']
            i = 0
            for edges in en.connected_graphs(n):
                if len(edges) == n - 1:
                    continue
                i += 1
                if i % unit['mod'] != unit['r']:
                    continue
                for table in TABLES:
                    yield {'k': 'move', 'n': n, 'edges': edges, 'table': table, 'cyclic': True}
        elif k == 'forest':
            for n1 in (2, 3):
                for t1 in en.all_trees(n1):
                    for n2 in (2, 3):
                        for t2 in en.all_trees(n2):
                            edges = list(t1) + [(a + n1, b + n1) for a, b in t2]
                            for table in TABLES:
                                yield {'k': 'move', 'n': n1 + n2, 'edges': edges, 'table': table}
        elif k == 'family':
            n = unit['n']
            edges = getattr(en, unit['fam'])(n)
            for table in TABLES:
                yield {'k': 'move', 'n': n, 'edges': edges, 'table': table, 'fam': unit['fam']}
        elif k == 'displ':
            n = unit['n']
            for edges in en.all_trees(n):
                for sigma in (0.1, 0.5, 2.0):
                    yield {'k': 'displ', 'n': n, 'edges': edges, 'sigma': sigma}
                yield {'k': 'displ', 'n': n, 'edges': edges, 'sigma': 0.5, 'table': 'geom_rev'}
            if n >= 4:      # atoms with three or more neighbours in the far corner of a big box (coordinates of thousands of nm)
                for edges in en.all_trees(n):
                    if {(0, 1), (0, 2), (0, 3)} <= {tuple(sorted(e)) for e in edges}:
                        yield {'k': 'displ', 'n': n, 'edges': edges, 'sigma': 0.5, 'far': 1, 'atom': 0}
            if n >= 4:      # star-like atoms with a narrow triple of first neighbours
                for edges in en.all_trees(n):
                    if {(0, 1), (0, 2), (0, 3)} <= {tuple(sorted(e)) for e in edges}:
                        yield {'k': 'displ', 'n': n, 'edges': edges, 'sigma': 0.5, 'narrow': 1, 'atom': 0}
            if n >= 4:      # cyclic graphs give atoms with >=3 neighbours in other orders
                for edges in en.connected_graphs(n):
                    if len(edges) > n - 1 and n == 4:
                        yield {'k': 'displ', 'n': n, 'edges': edges, 'sigma': 0.5}
        elif k == 'edit':
            for n in range(2, unit['nmax'] + 1):
                for edges in en.all_trees(n):
                    yield {'k': 'edit', 'n': n, 'edges': edges}
        elif k == 'single':
            for extra in (0, 2, 3):
                for dk in DISPL[:5]:
                    yield {'k': 'single', 'n': 1 + extra, 'edges': [[i, i + 1] for i in range(1, extra)], 'dk': dk}
        elif k == 'randatom':
            for n in (2, 3, 4):
                for edges in en.all_trees(n):
                    yield {'k': 'randatom', 'n': n, 'edges': edges}

    # ------------------------------------------------------------------
    def check_case(self, case, R, seed):
        from gaddlemaps import move_mol_atom, find_atom_random_displ
        n = case['n']
        edges = [tuple(e) for e in case['edges']]
        adj = en.adjacency(n, edges)
        pos = generic_points(n, seed, tag=n)
        if case['k'] == 'move':
            info = bonds_table(n, edges, pos, case['table'])
            comps = en.components(n, edges)
            atoms = [case['atom']] if 'atom' in case else range(n)
            dks = [case['dk']] if 'dk' in case else DISPL
            for atom in atoms:
                comp = next(c for c in comps if atom in c)
                for dk in dks:
                    d = displacement(dk, pos, adj, atom, seed)
                    cdesc = dict(case, atom=atom, dk=dk)
                    before = pos.copy()
                    # the atom index as a plain int or (two of the five displacement classes) as a numpy integer, as it
                    # comes out of np.arange / np.argmax
                    try:
                        out = move_mol_atom(pos, info, np.int64(atom) if dk in ('along_bond', 'large') else atom, d.copy())
                    except Exception as exc:
                        R.case(cdesc, nontrivial=False, outcome='exception', cls=f"exception/{case['table']}")
                        R.violation('move/exception', cdesc, repr(exc))
                        pos = before.copy()
                        continue
                    sig = None
                    if not np.array_equal(pos, before):
                        sig, det = 'move/input-modified', 'input array changed'
                        pos = before.copy()
                    elif not np.all(np.isfinite(out)):
                        sig, det = 'move/non-finite', out.tolist()
                    elif np.abs(out[atom] - (before[atom] + d)).max() > 1e-12:
                        sig, det = 'move/moved-atom-not-displaced-by-displ', (out[atom] - before[atom]).tolist()
                    else:
                        others = [v for v in range(n) if v not in comp]
                        if others and not np.array_equal(out[others], before[others]):
                            sig, det = 'move/other-component-moved', 'atoms outside the component changed'
                        else:
                            exact = []
                            worst = 0.0
                            cedges = [e for e in edges if e[0] in comp]
                            for a, b in cedges:
                                ln = dict(info[a])[b]
                                err = abs(np.linalg.norm(out[a] - out[b]) - ln) / ln
                                if err <= 1e-9:
                                    exact.append((a, b))
                                else:
                                    worst = max(worst, err)
                            if case.get('cyclic'):
                                sub = [e for e in exact if e[0] in comp]
                                reach = next(c for c in en.components(n, sub) if atom in c)
                                if set(reach) != set(comp):
                                    sig, det = 'move/cyclic-traversal-tree-bond-inexact', f'reachable through exact bonds: {reach}'
                            elif len(exact) != len(cedges):
                                sig, det = 'move/tree-bond-not-restored', f'worst relative bond error {worst:.3e}'
                            if not case.get('cyclic'):
                                R.add('max_rel_bond_err_e18', int(min(worst, 1.0) * 1e18))
                    moved_others = bool(np.any(out != before) and
                                        np.any(np.delete(out, atom, 0) != np.delete(before, atom, 0)))
                    n_moved = int(np.sum(np.any(out != before, axis=1))) if out.shape == before.shape else -1
                    R.case(cdesc, nontrivial=moved_others, outcome=f'atoms-repositioned={min(n_moved, 6)}',
                           cls=f"{case.get('fam') or ('cyclic' if case.get('cyclic') else 'tree')}/n{n}/{case['table']}/{dk}")
                    if sig:
                        R.violation(sig, cdesc, det)
        elif case['k'] == 'single':
            # atom 0 has no bond at all (the one-atom tree; a lone atom beside a small tree): it is displaced by exactly
            # the requested vector, nothing else moves
            info = {0: []}
            info.update(bonds_table(n, edges, pos, 'geom'))
            d = displacement(case['dk'] if case['dk'] != 'along_bond' else 'generic', pos, adj, 0, seed)
            before = pos.copy()
            try:
                out = np.asarray(move_mol_atom(pos, info, 0, d.copy()), float)
            except Exception as exc:
                R.case(case, nontrivial=False, outcome='exception', cls='single')
                R.violation('move/exception', case, repr(exc))
                return
            R.case(case, nontrivial=True, cls=f'unbonded-atom/n{n}', outcome='unbonded-atom-moved')
            if not np.array_equal(pos, before):
                R.violation('move/input-modified', case, 'input array changed')
            elif out.shape != before.shape or not np.all(np.isfinite(out)):
                R.violation('move/non-finite', case, out.tolist())
            elif np.abs(out[0] - (before[0] + d)).max() > 1e-12:
                R.violation('move/moved-atom-not-displaced-by-displ', case, (out[0] - before[0]).tolist())
            elif n > 1 and not np.array_equal(out[1:], before[1:]):
                R.violation('move/other-component-moved', case, 'atoms outside the component changed')
        elif case['k'] == 'edit':
            self._edit(case, R, pos, edges, move_mol_atom)
        elif case['k'] == 'displ':
            if case.get('narrow'):
                # atom 0 has neighbours 1, 2, 3 whose directions 1->2 and 1->3 make an angle of ~4 degrees: the plane
                # through the three neighbours is perfectly defined, just narrow
                pos = pos.copy()
                pos[1] = pos[0] + np.array([-0.1, -0.1, 0.3])
                pos[2] = pos[1] + np.array([0.15, 0.0, 0.0])
                pos[3] = pos[1] + np.array([0.3, 0.02, 0.0])
            if case.get('far'):
                pos = pos * 0.2 + np.array([2600.0, 1400.0, 3900.0])      # bonds of ~0.15 nm, 4700 nm from the origin
            info = bonds_table(n, edges, pos, case.get('table', 'geom'))
            atoms = [case['atom']] if 'atom' in case else range(n)
            for atom in atoms:
                self._displ(case, R, pos, info, atom, find_atom_random_displ)
        elif case['k'] == 'randatom':
            info = bonds_table(n, edges, pos, 'geom')
            picked = []

            def run(ctx):
                def script(kind, a, k):
                    if kind == 'randint':
                        c = ctx.choose(a[0], 'atom')
                        picked.append(c)
                        return c
                    if kind == 'rand':
                        return np.array([0.31, 0.77, 0.52])
                    if kind == 'choice':
                        return a[0][ctx.choose(len(a[0]), 'sign')]
                    if kind == 'normal':
                        return 0.7 * a[1]
                    raise AssertionError(kind)
                with owned_random(script):
                    return move_mol_atom(pos, info, sigma_scale=0.5)

            def on_exec(ctx, out, cut):
                atom = picked[-1]
                cdesc = dict(case, choices=list(ctx.trace))
                moved = np.abs(out[atom] - pos[atom]).max() > 0
                R.case(cdesc, nontrivial=moved, cls=f'randatom/n{n}', outcome=f'random-atom-picked={atom}')
                if not np.all(np.isfinite(out)):
                    R.violation('randatom/non-finite', cdesc, out.tolist())
                for a, b in edges:
                    ln = dict(info[a])[b]
                    if abs(np.linalg.norm(out[a] - out[b]) - ln) > 1e-9 * ln:
                        R.violation('randatom/tree-bond-not-restored', cdesc, (a, b))
                        break
            st = explore(run, None, on_exec)
            if len(set(picked)) != n:
                R.violation('randatom/not-every-atom-reachable', case, sorted(set(picked)))

    def _edit(self, case, R, pos, edges, move_mol_atom):
        """History on one bond table object: move, edit the table in place, move again."""
        n = case['n']
        d = np.array([0.13, -0.21, 0.08])
        for atom in ([case['atom']] if 'atom' in case else range(n)):
            cdesc = dict(case, atom=atom)
            info = bonds_table(n, edges, pos, 'geom')
            r1 = move_mol_atom(pos, info, atom, d.copy())
            keep1 = np.array(r1, float).copy()
            # a second trial move from the SAME input: the first result is the caller's and must stay what it was
            r2 = move_mol_atom(pos, info, atom, -0.5 * d)
            if r2 is r1 or not np.array_equal(np.asarray(r1), keep1):
                R.violation('move/result-returned-earlier-changed-by-a-later-call', cdesc, 'two moves from one input')
            # the input given as a VIEW of an earlier result must not be modified either
            view = r2[:] if isinstance(r2, np.ndarray) else np.asarray(r2)
            before = np.array(view, float).copy()
            r3 = move_mol_atom(view, info, (atom + 1) % n, d.copy())
            if not np.array_equal(np.asarray(view), before):
                R.violation('move/input-modified', cdesc, 'input was a view of an earlier result')
            elif np.abs(np.asarray(r3)[(atom + 1) % n] - (before[(atom + 1) % n] + d)).max() > 1e-12:
                R.violation('move/moved-atom-not-displaced-by-displ', cdesc, 'input was a view of an earlier result')
            for k in list(info):
                info[k] = [(j, ln * 1.25) for j, ln in info[k]]      # same dict object, new lengths
            out = move_mol_atom(pos, info, atom, d.copy())
            bad = [(a, b) for a, b in edges
                   if abs(np.linalg.norm(out[a] - out[b]) - dict(info[a])[b]) > 1e-9 * dict(info[a])[b]]
            R.case(cdesc, nontrivial=True, cls=f'table-edited-in-place/n{n}', outcome='second-move-after-table-edit')
            if not np.all(np.isfinite(out)):
                R.violation('move-after-table-edit/non-finite', cdesc, out.tolist())
            elif bad:
                R.violation('move-after-table-edit/bond-not-the-length-now-in-the-table', cdesc, str(bad[:3]))
            # (after the table-edit history above, which needs the calls on ONE table object to be consecutive)
            # an ndarray SUBCLASS as input (a memory-mapped trajectory frame, a user's Positions class): not modified either
            sub = pos.copy().view(_Positions)
            before = np.array(sub, float).copy()
            r4 = move_mol_atom(sub, info, atom, d.copy())
            if not np.array_equal(np.asarray(sub), before):
                R.violation('move/input-modified', cdesc, 'input was an instance of an ndarray subclass')
            elif np.abs(np.asarray(r4)[atom] - (before[atom] + d)).max() > 1e-12:
                R.violation('move/moved-atom-not-displaced-by-displ', cdesc, 'input was an instance of an ndarray subclass')
            # calls that RAISE (a displacement of the wrong shape, a negative sigma_scale) between valid calls: the next
            # valid call, on another molecule with its own table (same tree, 1.7 times larger), is as exact as any
            for bad in (dict(displ=np.zeros(2)), dict(sigma_scale=-1.0)):
                try:
                    move_mol_atom(pos, info, atom, **bad)
                except Exception:
                    pass
                pos2 = pos * 1.7 + np.array([0.4, 0.0, -0.2])
                info2 = bonds_table(n, edges, pos2, 'geom')
                a2 = (atom + 1) % n
                out2 = np.asarray(move_mol_atom(pos2, info2, a2, d.copy()))
                bad2 = [(a, b) for a, b in edges
                        if not abs(np.linalg.norm(out2[a] - out2[b]) - dict(info2[a])[b]) <= 1e-9 * dict(info2[a])[b]]
                if out2.shape != pos2.shape or not np.all(np.isfinite(out2)):
                    R.violation('move-after-raising-call/non-finite-or-shape', cdesc, f'{sorted(bad)}')
                elif bad2 or np.abs(out2[a2] - (pos2[a2] + d)).max() > 1e-12:
                    R.violation('move-after-raising-call/bond-or-moved-atom-wrong', cdesc, f'{sorted(bad)}: {bad2[:3]}')

    def _displ(self, case, R, pos, info, atom, fn):
        n = case['n']
        nb = [j for j, _ in info[atom]]
        sigma = info[atom][0][1] * case['sigma']
        helpers = [np.array([0.31, 0.77, 0.52]), np.array([0.93, 0.12, 0.64])]
        lengths = [0.7 * sigma, -1.3 * sigma]
        # where the bond / the line through the two neighbours points into the positive (or negative) octant a legal
        # draw from [0,1)^3 can be ALMOST PARALLEL to it (1.25e-4 rad off): third helper value there
        if len(nb) in (1, 2):
            ax = pos[nb[0]] - (pos[atom] if len(nb) == 1 else pos[nb[1]])
            if np.all(ax > 0.02) or np.all(ax < -0.02):
                u = np.abs(ax) / np.linalg.norm(ax)
                pp = np.cross(u, [0.0, 0.0, 1.0])
                helpers.append(0.8 * u + 1e-4 * pp / np.linalg.norm(pp))

        def run(ctx):
            def script(kind, a, k):
                if kind == 'rand':
                    return helpers[ctx.choose(len(helpers), 'helper')].copy()
                if kind == 'choice':
                    return a[0][ctx.choose(len(a[0]), 'sign')]
                if kind == 'normal':
                    if abs(a[1] - sigma) > 1e-12 * sigma or a[0] != 0:
                        ctx.data['bad_sigma'] = a
                    return lengths[ctx.choose(2, 'length')]
                raise AssertionError(kind)
            with owned_random(script):
                return fn(pos, info, atom, sigma_scale=case['sigma'])

        held = []

        def on_exec(ctx, d, cut):
            cdesc = dict(case, atom=atom, choices=list(ctx.trace))
            held.append((d, np.array(d, float).copy(), cdesc))
            R.case(cdesc, nontrivial=True, cls=f'displ/neigh{min(len(nb), 3)}',
                   outcome=f'displacement-drawn/neighbours={min(len(nb), 3)}')
            if 'bad_sigma' in ctx.data:
                R.violation('displ/sigma-not-bond-length-times-scale', cdesc, ctx.data['bad_sigma'])
            if not np.all(np.isfinite(d)):
                R.violation('displ/non-finite', cdesc, d.tolist())
                return
            if len(nb) == 1:
                perp = [pos[nb[0]] - pos[atom]]
            elif len(nb) == 2:
                perp = [pos[nb[0]] - pos[nb[1]]]
            else:
                perp = [pos[nb[0]] - pos[nb[2]], pos[nb[0]] - pos[nb[1]]]
            for b in perp:
                if abs(d @ b) > 1e-9 * np.linalg.norm(d) * np.linalg.norm(b):
                    R.violation(f'displ/not-perpendicular/neigh{min(len(nb), 3)}', cdesc,
                                f'cos={d @ b / np.linalg.norm(d) / np.linalg.norm(b):.3e}')
            want = abs(lengths[ctx.trace[-1]])
            if abs(np.linalg.norm(d) - want) > 1e-12:
                R.violation('displ/length-not-drawn-value', cdesc, (float(np.linalg.norm(d)), want))
        if 'choices' in case:
            ctx_prefix = case['choices']
            from mcx.explore import Ctx
            ctx = Ctx(ctx_prefix)
            on_exec(ctx, run(ctx), False)
            ctx = Ctx([0] * len(ctx_prefix))          # one more draw while the first displacement is held
            on_exec(ctx, run(ctx), False)
        else:
            explore(run, None, on_exec)
        # the displacements AS RETURNED, kept by the caller (one per trial move) while the later ones were drawn
        for raw, snap, cdesc in held:
            if not np.array_equal(np.asarray(raw, float), snap):
                R.violation('displ/displacement-returned-earlier-changed-by-a-later-draw', cdesc,
                            f'{snap.tolist()} now reads {np.asarray(raw).tolist()}')
                break


CHECK = C07()
