"""C15 - topology reader yields exactly the file's atoms and bond graph.

Enumerated completely (no sampling): every labelled simple graph on 1..4 (quick) /
1..5 (thorough) atoms x atom numbering x residue layout x every assignment of the
edges to the bonds / constraints / pairs sections (deviation-bounded beyond 4 edges)
x order of those sections x a noise template (comments, blank lines, preprocessor
lines, spacing, trailing comments, repeated sections).  Every file is rendered to
text, read by the independent reference reader (mcx.ref.itp) and by the real
read_topology / MoleculeTop / are_connected / copy.  Large deterministic graphs
(998..3000 atoms) decide the connectivity walk at scale.
"""
import itertools

from mcx import enum as en
from mcx.build import MemFile
from mcx.core import Check
from mcx.ref import itp
from mcx.seams import patched

SECS = ('bonds', 'constraints', 'pairs')
ORDERS = ((0, 1, 2), (2, 0, 1), (1, 2, 0))
NUMBERINGS = ('seq', 'gaps', 'offset')
RESIDUES = ('one', 'two', 'three')
NOISES = ('none', 'comments', 'preproc', 'spacing', 'trailing', 'repeat', 'ifdef_inside')
ELEMS = 'CNOHS'
BIG_N = (501, 998, 999, 1000, 1001, 3000)
BIG_FAMILIES = ('chain', 'revchain', 'star', 'comb', 'joined', 'notjoined', 'ring_tail2', 'lone_first', 'bridged')
ATTACHED = ('moleculetype', 'atoms', 'bonds', 'constraints', 'pairs')
TAILS = (' ; note', ' ;', ' ; a ; b', ';7 8 tight', ' ; 1 2', ' ;;', ' ; b0 [nm]', ' ; see [ref] [ 12 ]')


def numbering(kind, n):
    if kind == 'seq':
        return list(range(1, n + 1))
    if kind == 'offset':
        return list(range(101, 101 + n))
    if kind == 'rev':
        return list(range(n, 0, -1))
    out, v = [], 10                      # gaps: 10, 20, 35, 55, 80, ...
    for i in range(n):
        out.append(v)
        v += 10 + 5 * i
    return out


def atom_rows(n, res):
    rows = []
    for i in range(n):
        name = ELEMS[i % 5] + str(i + 1)
        if res == 'long':                 # names beyond the five columns a coordinate file has: kept as written
            rows.append(('CARB%03d' % (i + 1), 'LONGRES' if i < (n + 1) // 2 else 'OTHERRES', 1 if i < (n + 1) // 2 else 2))
        elif res == 'one':
            rows.append((name, 'MOL', 1))
        elif res == 'two':
            # (names that LOOK like numbers are still names: atom '18', '010', '1E2', residue '7')
            name2 = (name, '18', '010', '1E2')[i % 4]
            rows.append((name2, 'MOL' if i < (n + 1) // 2 else '7', 1 if i < (n + 1) // 2 else 2))
        else:
            b = i * 3 // n
            rows.append((name, ('ALA', 'GLY', 'SER')[b], b + 4))
    return rows


def assignments(e, full_upto=4, dev=2):
    """Every function edges -> {0,1,2} for e <= full_upto, else <= dev edges off section 0."""
    if e <= full_upto:
        yield from (list(a) for a in itertools.product(range(3), repeat=e))
        return
    for d in range(dev + 1):
        for where in itertools.combinations(range(e), d):
            for vals in itertools.product((1, 2), repeat=d):
                a = [0] * e
                for w, v in zip(where, vals):
                    a[w] = v
                yield a


def bond_tokens(sec, a, b):
    # the function-type column varies (bonds 1/2/6, constraints 1/2, pairs 1/2): every listed pair is an edge
    # of the graph whatever its function type
    if sec == 0:
        return [str(a), str(b), ('1', '2', '6')[(a + b) % 3], '0.153', '1000.0']
    if sec == 1:
        return [str(a), str(b), ('1', '2')[(a + b) % 2], '0.153']
    return [str(a), str(b), ('1', '2')[(a + b) % 2]]


def render(n, edges, assign, num='seq', res='one', order=(0, 1, 2), noise='none', attached=None, indented=None):
    """The topology text of one case. edges: 0-based pairs; assign[k]: section of edge k."""
    nr = numbering(num, n)
    rows = atom_rows(n, res)
    by_sec = {0: [], 1: [], 2: []}
    for k, (a, b) in enumerate(edges):
        if k % 2:
            a, b = b, a                  # both orientations occur in the files
        by_sec[assign[k]].append((nr[a], nr[b]))
    eset = {frozenset(e) for e in edges}
    non_edge = next(((a, b) for a in range(n) for b in range(a + 1, n)
                     if frozenset((a, b)) not in eset), None)
    out = []
    count = [0]

    def head(name):
        if noise == 'spacing':
            count[0] += 1
            return ('[%s]', '[  %s  ]', ' [ %s ]\t', '\t[ %s]  ')[count[0] % 4] % name
        return '[ %s ]' % name

    def content(tokens, kind):
        count[0] += 1
        k = count[0]
        if noise == 'spacing':
            sep = ('\t', '   ', ' \t ', '      ')[k % 4]
            return ('', '  ', '\t')[k % 3] + sep.join(tokens) + ('', '  ', '\t')[(k // 3) % 3]
        line = ' '.join(tokens)
        if noise == 'trailing':
            tail = TAILS[k % len(TAILS)]
            if kind == 'moleculetype' and not tail.startswith(' '):
                tail = ' ; name nrexcl'
            return line + tail
        if attached == kind:
            return line + ';c'
        return line

    atom_lines = [content([str(nr[i]), 'T%d' % (i % 3), str(rows[i][2]), rows[i][1], rows[i][0],
                           str(nr[i]), '0.0', '12.011'], 'atoms') for i in range(n)]

    def sec_lines(s, pairs):
        return [content(bond_tokens(s, a, b), SECS[s]) for a, b in pairs]

    if noise == 'comments':
        # comment lines may end in a backslash (a Windows path, an ASCII drawing of the molecule): still just comments
        out += ['; topology written for the check', '; [ bonds ]', ';', '; lengths in [nm], energies in [kJ]', '',
                '; source folder D:\\top\\']
    if noise == 'preproc':
        out += ['#include "forcefield.itp"', '#define FLEXIBLE']
    out.append(head('moleculetype'))
    if noise == 'comments':
        out.append('; name  nrexcl')
    # the molecule name: any blank-free word (punctuation, a leading digit, a trailing sign are all legal)
    out.append(content([{'seq': 'MOLX', 'gaps': 'C4-mim.2+', 'offset': '2-propanol'}.get(num, 'MOLX'), '1'], 'moleculetype'))
    if noise == 'comments':
        out.append('')
    out.append(head('atoms'))
    if noise == 'comments':
        out += [';   nr  type  resnr  residue  atom  cgnr  charge  mass', ';    /  \\']
        for i, ln in enumerate(atom_lines):
            out.append(ln)
            if i == 0:
                out += ['; 999 TX 9 BAD ZZ9 999 0.0 1.0', '   ']
        out.append('')
    elif noise == 'preproc':
        for i, ln in enumerate(atom_lines):
            out.append(ln)
            if i == 0:
                out += ['#ifdef HEAVY_H', '#define MASS_H 4.032', '#endif']
    else:
        out += atom_lines

    extra = []                            # sections that are not part of the bond graph
    if n >= 3:
        extra += [head('angles'), ' '.join(map(str, (nr[0], nr[1], nr[2], 1, 109.5, 400.0)))]
    if non_edge is not None:
        extra += [head('exclusions'), '%d %d' % (nr[non_edge[0]], nr[non_edge[1]])]

    if noise == 'repeat':
        halves = {s: (by_sec[s][:(len(by_sec[s]) + 1) // 2], by_sec[s][(len(by_sec[s]) + 1) // 2:])
                  for s in order}
        for s in order:
            if by_sec[s]:
                out += [head(SECS[s])] + sec_lines(s, halves[s][0])
        out += extra
        for s in order:
            if by_sec[s]:                 # second occurrence, possibly without any line
                out += [head(SECS[s])] + sec_lines(s, halves[s][1])
    else:
        first = True
        for s in order:
            if not by_sec[s] and noise != 'comments':
                continue
            if noise == 'preproc' and first:
                out.append('#ifdef FLEXIBLE')
            out.append(head(SECS[s]))
            lines = sec_lines(s, by_sec[s])
            if noise == 'ifdef_inside':
                # conditional blocks INSIDE the section, around some of its lines ("preprocessor lines ignored":
                # every listed pair is read, whichever branch it stands in)
                half = (len(lines) + 1) // 2
                out += lines[:half] + ['#ifdef EXTRA_%s' % SECS[s].upper()] + lines[half:] + \
                    ['#else', '#endif', '#ifndef NO_%s' % SECS[s].upper(), '#endif']
                if len(lines) == 1:
                    out[-6:-6] = ['#ifdef ALL_%s' % SECS[s].upper()]
                    out.insert(-4, '#endif')
            elif noise == 'comments':
                out.append(';  ai  aj  funct  b0 [nm]  kb [kJ]')
                for i, ln in enumerate(lines):
                    out.append(ln)
                    if i == 0:
                        pair = non_edge or (0, 0)
                        out += [';%d %d 1' % (nr[pair[0]], nr[pair[1]]), '', ';  \\  /  \\']
                out.append('')
            else:
                out += lines
            if noise == 'preproc' and first:
                out += ['#else', '#endif']
            first = False
        if noise == 'comments':
            out += extra
        if noise == 'preproc':
            out += ['#ifdef POSRES', '#include "posre.itp"', '#endif']
    if indented:                          # directives with leading white space after the first line of a section
        at = out.index('[ %s ]' % indented) + 2
        out[at:at] = ['  #ifdef POSRES', '\t#include "posre.itp"', '  #endif']
    return '\n'.join(out) + '\n'


def big_graph(fam, n):
    """(edges, assignment, numbering) of a deterministic large family."""
    h = n // 2
    if fam in ('chain', 'revchain'):
        e = en.chain(n)
        a = [0] * len(e)
    elif fam == 'bridged':
        # a chain with long bridges whose atom NUMBERS, written one after the other, read the same for different
        # pairs (1-123 / 11-23, 2-356 / 23-56, 12-345 / 123-45): distinct pairs all the same
        e = en.chain(n) + [(0, 122), (10, 22), (1, 355), (22, 55), (11, 344), (122, 44)]
        a = [0] * (n - 1) + [0, 1, 2, 0, 1, 2]
    elif fam == 'star':
        e = en.star(n)
        a = [k % 3 for k in range(len(e))]
    elif fam == 'comb':
        e = en.caterpillar(n)
        spine = (n + 1) // 2
        a = [0 if max(p) < spine else 1 for p in e]
    elif fam == 'ring_tail2':             # a ring over all atoms but the last two, which have no bond at all
        e = [(i, i + 1) for i in range(n - 3)] + [(n - 3, 0)]
        a = [k % 2 for k in range(len(e))]
    elif fam == 'lone_first':             # the first atom has no bond, the rest is a chain
        e = [(i, i + 1) for i in range(1, n - 1)]
        a = [0] * len(e)
    else:
        e = [(i, i + 1) for i in range(h - 1)] + [(i, i + 1) for i in range(h, n - 1)]
        a = [0] * len(e)
        if fam == 'joined':
            e.append((h // 2, h + (n - h) // 2))
            a.append(2)
    return e, a, ('rev' if fam == 'revchain' else 'seq')


class C15(Check):
    pid = 'C15'
    level = 'exploration'
    rule = ('case = one rendered topology file = (labelled graph, edge -> section assignment, atom numbering, '
            'residue layout, section order, noise template) or (large family, size) or (line kind with an '
            'attached comment / section holding an indented directive); distinct by descriptor; non-trivial = '
            'the file lists at least one pair, so the number -> position translation and the symmetric connect ran')
    technique = ('exhaustive enumeration of all labelled graphs x file renderings, each read by the real '
                 'read_topology / MoleculeTop / are_connected / copy and by an independent reference reader')
    level_text = ('every labelled simple graph on 1..4 (quick) / 1..5 (thorough) atoms, with every assignment of its '
                  'edges to bonds/constraints/pairs (at most 2 edges off [ bonds ] beyond 4 edges), 3 numberings, '
                  '3 residue layouts (+ one with atom / residue names longer than five characters), 3 section orders and 7 noise templates (incl. conditional blocks inside the sections), and 9 large families (incl. unbonded atoms at the very end / start) at 6 sizes from 501 up to '
                  '3000 atoms are rendered and read by the real code, plus a sequence of 6 different topologies written to one path and read by path, one file per typed section with a comment glued to '
                  'the last token (`1 2 1;c`) and one with indented directives; a coverage statement over that finite space')
    level_note = ('trusted: the reference reader mcx/ref/itp.py (self-tested), the graph enumerators; each file is loaded '
                  'once by MoleculeTop and the value read_topology returned is recorded by a pass-through wrapper at that '
                  'call site (read_topology is also called directly on the plain renderings, the large and the '
                  'attached / indented families); reading: '
                  '"preprocessor lines ignored" = both branches of an #ifdef are read; pairs are compared as a set of '
                  'unordered position pairs; sections other than bonds/constraints/pairs (angles, exclusions) must not '
                  'contribute; "equal" copy = the library\'s own == plus field-wise equality; not covered: self-bonds, '
                  'pairs naming an atom number absent from [ atoms ], several molecules per file, CRLF line ends, '
                  'the thorough tier at 5 atoms varies numbering/residue/order/noise one at a time around the defaults')
    assumptions = ['files are rendered from 7 noise templates; other layouts of comments / preprocessor lines are not covered',
                   'atom numberings: 1..n, increasing with gaps (10, 20, 35, 55, 80), offset 101.., and n..1 for the '
                   'reversed large chain']

    def _pathseq(self, case, R):
        """Call history on ONE path: different topologies are written to it one after the other and each is read
        back by path (what a reader remembers about a path must not outlive the file's content)."""
        import os
        from mcx.build import Scratch
        with Scratch() as d:
            path = os.path.join(d, 'molecule.itp')
            for i, (n, edges, res) in enumerate(PATHSEQ):
                text = render(n, edges, [k % 3 for k in range(len(edges))], res=res).replace('MOLX', 'MOL%d' % i)
                with open(path, 'w') as fh:
                    fh.write(text)
                sigs = examine_path(path, text)
                R.case(dict(case, step=i), nontrivial=i > 0, outcome='read-by-path', cls='same-path-rewritten')
                for sig, det in sigs:
                    R.violation('same-path-rewritten/' + sig, case, 'file %d of the sequence: %s' % (i, det))
                if sigs:
                    break

    def setup(self, tier, seed):
        assert itp.selftest() and en.selftest()

    def units(self, tier, seed):
        nmax = 5 if tier == 'thorough' else 4
        self.bounds = {'graph_atoms_max': nmax, 'assignment_full_upto_edges': 4, 'assignment_deviations_beyond': 2,
                       'numberings': list(NUMBERINGS), 'residue_layouts': list(RESIDUES),
                       'section_orders': [[SECS[i] for i in o] for o in ORDERS], 'noise_templates': list(NOISES),
                       'large_sizes': list(BIG_N), 'large_families': list(BIG_FAMILIES),
                       'attached_comment_line_kinds': list(ATTACHED), 'indented_directive_sections': list(ATTACHED),
                       'five_atom_product': 'numbering, residue, order, noise: at most one off its default (12 renderings per graph and assignment)'}
        u = [{'k': 'small', 'n': n, 'lo': 0, 'hi': 1 << (n * (n - 1) // 2)} for n in (1, 2, 3)]
        u += [{'k': 'small', 'n': 4, 'lo': lo, 'hi': lo + 1} for lo in range(64)]
        if nmax >= 5:
            u += [{'k': 'small', 'n': 5, 'lo': lo, 'hi': lo + 4} for lo in range(0, 1024, 4)]
        u += [{'k': 'big', 'fam': f, 'n': n} for n in BIG_N for f in BIG_FAMILIES]
        u.append({'k': 'attached'})

        def cost(x):                      # heavy units first (files per unit, roughly)
            if x['k'] == 'big':
                return x['n'] * 30
            if x['k'] != 'small':
                return 0
            per = 12 if x['n'] >= 5 else 162
            return per * sum(len(list(assignments(bin(m).count('1')))) for m in range(x['lo'], x['hi']))
        u.sort(key=cost, reverse=True)
        return u

    def cases(self, unit, tier, seed):
        if unit['k'] == 'small':
            n = unit['n']
            pairs = list(itertools.combinations(range(n), 2))
            for mask in range(unit['lo'], unit['hi']):
                edges = [list(pairs[i]) for i in range(len(pairs)) if mask >> i & 1]
                for a in assignments(len(edges)):
                    yield {'k': 'small', 'n': n, 'edges': edges, 'assign': a}
        elif unit['k'] == 'big':
            yield {'k': 'big', 'fam': unit['fam'], 'n': unit['n']}
        else:
            yield {'k': 'pathseq'}
            for i in range(len(SPECIAL_GRAPHS)):
                yield {'k': 'special', 'g': i}
            for kind in ATTACHED:
                yield {'k': 'attached', 'kind': kind}
            for kind in ATTACHED:
                yield {'k': 'indented', 'kind': kind}

    # ------------------------------------------------------------------
    def check_case(self, case, R, seed):
        if case['k'] == 'big':
            n = case['n']
            edges, assign, num = big_graph(case['fam'], n)
            text = render(n, edges, assign, num=num)
            sigs, outcome = examine(text, direct=True)
            R.case(case, nontrivial=True, outcome=outcome, cls='big/%s' % case['fam'])
            for sig, det in sigs:
                R.violation(sig, case, det)
            return
        if case['k'] == 'pathseq':
            self._pathseq(case, R)
            return
        if case['k'] == 'special':
            n, edges = SPECIAL_GRAPHS[case['g']]
            for num in ('seq', 'gaps'):
                sigs, outcome = examine(render(n, edges, [k % 3 for k in range(len(edges))], num=num), direct=True)
                R.case(dict(case, num=num), nontrivial=True, outcome=outcome, cls='special-graphs')
                for sig, det in sigs:
                    R.violation(sig, case, det)
            return
        if case['k'] == 'attached':
            kind = case['kind']
            assign = [max(ATTACHED.index(kind) - 2, 0)] * 2
            base, _ = examine(render(3, [(0, 1), (1, 2)], assign), direct=True)
            text = render(3, [(0, 1), (1, 2)], assign, attached=kind)
            sigs, outcome = examine(text, direct=True)
            if base:                      # already wrong without the comment: the other families report it
                sigs = []
            R.case(case, nontrivial=True, outcome=outcome, cls='attached/%s' % kind)
            for sig, det in sigs:
                R.violation('comment-attached-to-token/%s/%s' % (kind, sig), case, det)
            return
        if case['k'] == 'indented':
            kind = case['kind']
            assign = [max(ATTACHED.index(kind) - 2, 0)] * 2
            base, _ = examine(render(3, [(0, 1), (1, 2)], assign), direct=True)
            sigs, outcome = examine(render(3, [(0, 1), (1, 2)], assign, indented=kind), direct=True)
            R.case(case, nontrivial=True, outcome=outcome, cls='indented/%s' % kind)
            for sig, det in ([] if base else sigs):
                R.violation('indented-directive/%s/%s' % (kind, sig), case, det)
            return
        n = case['n']
        edges = [tuple(e) for e in case['edges']]
        assign = case['assign']
        if 'noise' in case:
            combos = [(case['num'], case['res'], case['order'], case['noise'])]
        elif n >= 5:
            d = (NUMBERINGS[0], RESIDUES[0], 0, NOISES[0])      # one factor off the default at a time
            combos = [d] + [(x,) + d[1:] for x in NUMBERINGS[1:]] + [d[:1] + (x,) + d[2:] for x in RESIDUES[1:]]
            combos += [d[:2] + (o, d[3]) for o in range(1, len(ORDERS))] + [d[:3] + (z,) for z in NOISES[1:]]
            combos += [(d[0], 'long', 0, d[3])]
        else:
            combos = list(itertools.product(NUMBERINGS, RESIDUES, range(len(ORDERS)), NOISES))
            combos += [(num, 'long', 0, noise) for num in NUMBERINGS for noise in ('none', 'trailing')]
        nontrivial = bool(edges)
        for num, res, order, noise in combos:
            if order and len(set(assign)) < 2 and noise != 'comments':
                continue                 # one section only: the order changes nothing in the file
            cdesc = dict(case, num=num, res=res, order=order, noise=noise)
            text = render(n, edges, assign, num, res, ORDERS[order], noise)
            sigs, outcome = examine(text, direct=(noise == 'none' and num == 'seq' and res == 'one'))
            R.case(cdesc, nontrivial=nontrivial, outcome=outcome, cls='n%d/%s' % (n, noise))
            for sig, det in sigs:
                R.violation(sig, cdesc, det)


def last_occurrence_graph(parsed, numbers):
    pos = {nr: i for i, nr in enumerate(numbers)}
    last = {}
    for name, items in parsed.occurrences:
        if name in itp.BOND_SECTIONS:
            last[name] = items
    g = set()
    for items in last.values():
        for it in items:
            if it[0] == 'content':
                g.add(frozenset((pos[int(it[1][0])], pos[int(it[1][1])])))
    return g


# graphs whose edge count alone says nothing: disconnected with exactly n-1 edges and no isolated atom (a ring plus a
# separate fragment), connected with exactly n-1 edges, and the like, on 5..7 atoms
SPECIAL_GRAPHS = (
    (5, [(0, 1), (1, 2), (0, 2), (3, 4)]),                      # triangle + dimer
    (6, [(0, 1), (1, 2), (2, 3), (0, 3), (4, 5)]),              # square + dimer
    (7, [(0, 1), (1, 2), (0, 2), (3, 4), (4, 5), (5, 6)]),      # triangle + 4-chain
    (6, [(0, 1), (1, 2), (0, 2), (3, 4), (4, 5), (3, 5)]),      # two triangles (n edges)
    (6, [(5, 4), (4, 3), (3, 5), (0, 1), (1, 2)]),              # trimer + triangle, ring on the high numbers
    (5, [(0, 1), (1, 2), (2, 3), (3, 4)]),                      # control: a chain (connected, n-1 edges)
    (5, [(0, 1), (1, 2), (0, 2), (2, 3), (3, 4)]),              # control: triangle with a tail (connected)
)
PATHSEQ = ((3, [(0, 1), (1, 2)], 'one'), (5, [(0, 1), (1, 2), (2, 3), (3, 4), (0, 4)], 'two'), (2, [(0, 1)], 'one'),
           (4, [(0, 3), (1, 3), (2, 3)], 'three'), (3, [(0, 2)], 'one'), (5, [(0, 1), (1, 2), (2, 3), (3, 4), (0, 4)], 'two'))


def examine_path(path, text):
    """The file at `path` (holding `text`) read BY PATH with the real code, against the reference reading of text."""
    from gaddlemaps.components import MoleculeTop
    from gaddlemaps.parsers import read_topology
    ref = itp.topology(itp.parse(text))
    out = []
    try:
        name, atoms, bonds = read_topology(path)
        mt = MoleculeTop(path)
    except Exception as exc:
        return [('error/' + type(exc).__name__, repr(exc)[:200])]
    if name != ref.name or mt.name != ref.name:
        out.append(('molecule-name-not-the-files', (name, mt.name, ref.name)))
    if [tuple(a) for a in atoms] != ref.atoms or len(mt) != len(ref.atoms):
        out.append(('atoms-not-the-files', (len(atoms), len(mt), len(ref.atoms))))
    elif {frozenset(b) for b in bonds} != ref.graph or \
            {frozenset((i, j)) for i, a in enumerate(mt) for j in a.bonds} != ref.graph:
        out.append(('bond-graph-not-the-files', sorted(map(sorted, ref.graph))[:6]))
    return out


def examine(text, direct=False):
    """Read `text` with the real code, compare with the reference; -> ([(sig, detail)], outcome).

    The file is loaded once by MoleculeTop; what read_topology returned is recorded by a
    pass-through wrapper at MoleculeTop's call site (direct=True: called directly as well).
    """
    import gaddlemaps.components._components_top as top_mod
    from gaddlemaps.components import MoleculeTop, are_connected
    from gaddlemaps.parsers import read_topology
    parsed = itp.parse(text)
    ref = itp.topology(parsed)
    n = len(ref.atoms)
    want_conn = ref.connected()
    outcome = 'n%s/e%d/%s' % (min(n, 6), min(len(ref.graph), 7), 'conn' if want_conn else 'disc')
    out = []
    # --- one load: MoleculeTop, read_topology observed at MoleculeTop's call site ------
    rec = {}
    real = top_mod.read_topology

    def spy(*a, **k):
        try:
            rec['out'] = real(*a, **k)
        except Exception as exc:
            rec['exc'] = exc
            raise
        return rec['out']
    mt = mt_exc = None
    try:
        with patched(top_mod, 'read_topology', spy):
            mt = MoleculeTop(MemFile(text, 'mol.itp'))
    except Exception as exc:
        mt_exc = exc
    if direct or not rec:                 # direct call (also when MoleculeTop did not go through it)
        rec = {}
        try:
            rec['out'] = read_topology(MemFile(text, 'mol.itp'))
        except Exception as exc:
            rec['exc'] = exc
    if 'exc' in rec:
        return [('read_topology/error/' + type(rec['exc']).__name__, repr(rec['exc'])[:300])], outcome
    name, atoms, bonds = rec['out']
    if name != ref.name:
        out.append(('read_topology/molecule-name-differs', (name, ref.name)))
    if [tuple(a) for a in atoms] != ref.atoms:
        out.append(('read_topology/atoms-differ', ([tuple(a) for a in atoms][:8], ref.atoms[:8])))
    try:
        bad = [b for b in bonds if len(b) != 2 or not all(isinstance(x, int) and 0 <= x < n for x in b)]
    except TypeError:
        bad = list(bonds)[:3]
    if bad:
        out.append(('read_topology/pair-not-a-position', bad[:5]))
    else:
        graph = {frozenset(b) for b in bonds}
        if graph != ref.graph:
            if len(parsed.occurrences) != len(parsed.order) and graph == last_occurrence_graph(parsed, ref.numbers):
                out.append(('read_topology/pairs-differ/only-last-occurrence-of-repeated-section-read',
                            sorted(map(sorted, graph ^ ref.graph))[:8]))
            else:
                out.append(('read_topology/pairs-differ', sorted(map(sorted, graph ^ ref.graph))[:8]))
    # --- MoleculeTop ----------------------------------------------------
    if mt_exc is not None:
        out.append(('MoleculeTop/error/' + type(mt_exc).__name__, repr(mt_exc)[:300]))
        return out, outcome
    if mt.name != ref.name:
        out.append(('MoleculeTop/molecule-name-differs', (mt.name, ref.name)))
    got_atoms = [(a.name, a.resname, a.resid) for a in mt]
    if got_atoms != ref.atoms or len(mt) != n:
        out.append(('MoleculeTop/atoms-differ', (got_atoms[:8], ref.atoms[:8])))
        return out, outcome
    asym = [(i, j) for i, a in enumerate(mt) for j in a.bonds
            if not (isinstance(j, int) and 0 <= j < n) or i not in mt[j].bonds]
    if asym:
        out.append(('MoleculeTop/bonds-not-symmetric', asym[:6]))
    loaded = {frozenset((i, j)) for i, a in enumerate(mt) for j in a.bonds}
    if loaded != ref.graph:
        if not any(s[0].startswith('read_topology/pairs-differ') for s in out):
            out.append(('MoleculeTop/bond-graph-differs', sorted(map(sorted, loaded ^ ref.graph))[:8]))
        return out, outcome
    if asym:
        return out, outcome
    # --- connectivity ---------------------------------------------------
    try:
        conn = are_connected(list(mt))
        if bool(conn) != want_conn:
            out.append(('are_connected/wrong-answer', 'got %r, union-find says %r' % (conn, want_conn)))
    except Exception as exc:
        out.append(('are_connected/error/' + type(exc).__name__, repr(exc)[:300]))
    # --- copy -----------------------------------------------------------
    def snap(m):
        return [(a.name, a.resname, a.resid, a.index, frozenset(a.bonds)) for a in m]
    before = snap(mt)
    try:
        cp = mt.copy()
        if not (cp == mt) or (cp != mt) or not (mt == cp):
            out.append(('copy/not-equal-to-original', '== is False'))
        if cp.name != mt.name or snap(cp) != before:
            out.append(('copy/fields-differ', 'name or atom fields'))
        for a in cp:
            a.bonds.add(n + 7)
            a.bonds.discard(min(a.bonds))
            a.name += 'x'
            a.resname = 'ZZZ'
            a.resid += 100
        cp.name = 'other'
        cp.atoms.pop()
        if snap(mt) != before or mt.name != ref.name or len(mt) != n:
            changed = [i for i, (x, y) in enumerate(zip(snap(mt), before)) if x != y]
            out.append(('copy/original-changed-through-copy', 'atoms changed: %s' % changed[:8]))
    except Exception as exc:
        out.append(('copy/error/' + type(exc).__name__, repr(exc)))
    # --- connectivity asked again for the SAME list after its graph was changed through the atoms' own API: the two
    #     fragments of a disconnected graph are joined (then it is connected); a connected tree loses a leaf bond
    try:
        if n >= 2 and n <= 8:
            lst = list(mt)
            first = bool(are_connected(lst))
            if not want_conn:
                comp0 = {0}
                grew = True
                while grew:
                    grew = False
                    for i in list(comp0):
                        for j in lst[i].bonds:
                            if j not in comp0:
                                comp0.add(j)
                                grew = True
                comps, seen = [], set()
                for i0 in range(n):
                    if i0 in seen:
                        continue
                    comp, todo = {i0}, [i0]
                    while todo:
                        i = todo.pop()
                        for j in lst[i].bonds:
                            if j not in comp:
                                comp.add(j)
                                todo.append(j)
                    seen |= comp
                    comps.append(min(comp))
                for a, b in zip(comps, comps[1:]):
                    lst[a].connect(lst[b])
                second, want2 = bool(are_connected(lst)), True
            else:
                leaf = next((i for i in range(n) if len(lst[i].bonds) == 1), None)
                second = want2 = None
                if leaf is not None:
                    other = next(iter(lst[leaf].bonds))
                    lst[leaf].bonds.discard(other)
                    lst[other].bonds.discard(leaf)
                    second, want2 = bool(are_connected(lst)), False
            if first == want_conn and second is not None and second != want2:
                out.append(('are_connected/stale-answer-after-the-graph-of-the-same-list-changed',
                            'first %r, after the change %r (union-find says %r)' % (first, second, want2)))
    except Exception as exc:
        out.append(('are_connected/error/' + type(exc).__name__, repr(exc)[:300]))
    return out, outcome


CHECK = C15()
