"""C02 - exchange map commutes with rigid motion of the reference.

Enumerated completely: the C01 reference space (every labelled graph with an anchor on
3, 4 / 5 atoms x 8 geometry classes) x 3 targets x 2 scale factors, plus 1-atom and
2-atom references (their frame completion draws np.random.rand(3): owned, 3-entry menu
at construction x 3-entry menu at call), each x 27 rotations (the 24 cube rotations
+ 3 generic ones) x 3 translations (0, 2.4 nm, 135 nm).
"""
import numpy as np

from mcx.build import cube_rotations, generic_rotations
from mcx.core import Check
from mcx.ref import exmap as xm
from mcx.seams import owned_random

SCALES = (0.5, 1.0)
TARGETS = ((1, 'near'), (3, 'between'), (2, 'far'))
TRANSL = (np.zeros(3), np.array([0.5, -1.25, 2.0]), np.array([100.0, -50.0, 75.0]))
TOL = 1e-8
AX2 = ('x', 'y', 'z', '110', '111', '123', 'generic')
AXDIR = {'x': (1, 0, 0), 'y': (0, 1, 0), 'z': (0, 0, 1), '110': (1, 1, 0), '111': (1, 1, 1), '123': (1, 2, 3)}
MENU = (np.array([0.31, 0.77, 0.52]), np.array([0.93, 0.12, 0.64]))
CONST_DRAW = np.array([0.31, 0.77, 0.52])
QUICK_CUBE = ('generic', 'col_x', 'col_z')
INPLACE = ((0, 1), (5, 0), (25, 2))
INPLACE_BENT = ((0, 1), (5, 0), (25, 1))
TINY_TR = np.array([1e-6, -2e-6, 0.5e-6])
# extra bonded partners of the hub atom 10 of a 20-atom chain (besides 9 and 11): as a hash set of small integers these
# neighbour sets iterate in another order once the topology has been copied
HUB_EXTRAS = ((2, 3, 4, 5, 17), (2, 3, 17), (3, 4, 5, 16, 17), (5, 6, 17, 18), (1, 2, 3, 4, 17))       # (rotation index, translation index) applied to the construction object in place


_ROT = {}


def rotations(seed):
    if seed not in _ROT:
        _ROT[seed] = cube_rotations() + generic_rotations(seed)
    return _ROT[seed]


def invariants(d, u):
    ax = float(d @ u)
    return float(np.linalg.norm(d)), ax, float(np.linalg.norm(d - ax * u))


def draw_menu2(ax):
    """Third menu entry for a 2-atom reference: a draw lying exactly on the reference axis
    (where such a draw exists in [0,1)^3), else the cube diagonal."""
    if ax in AXDIR:
        d = np.array(AXDIR[ax], dtype=float)
        third = 0.5 * d / d.max()
    else:
        third = np.array([0.5, 0.5, 0.5])
    return [[MENU[0]], [MENU[1]], [third]]


MENU1 = [[MENU[0], MENU[1]], [MENU[1], MENU[0]],
         [np.array([0.25, 0.25, 0.25]), np.array([0.5, 0.5, 0.5])]]     # last: the two draws are collinear


class Draws:
    """Owned np.random: hands out the scripted vectors in order (cyclically)."""

    def __init__(self, seq):
        self.seq, self.i = seq, 0

    def __call__(self, kind, a, k):
        v = self.seq[self.i % len(self.seq)]
        self.i += 1
        if kind in ('rand', 'random', 'uniform'):
            return np.array(v, dtype=float).copy()
        raise AssertionError(f'unexpected draw {kind}{a}')


class C02(Check):
    pid = 'C02'
    level = 'exploration'
    rule = ('case = (reference: bond graph x geometry class, or 1-/2-atom reference x axis class x frame-completion '
            'draws at construction and at call; target; scale factor; rotation; translation); distinct by descriptor; '
            'non-trivial = the map was applied to a moved copy (not the identity motion) and every mapped atom compared')
    technique = ('exhaustive enumeration of references x targets x scales x 27 rotations x 3 translations on the real '
                 'ExchangeMap; differential oracle map(R ref + t) vs R map(ref) + t; owned np.random for small references')
    level_text = ('every labelled graph with an anchor on 3..4 (quick) / 3..5 (thorough) atoms in 9 geometry classes (incl. a chain bent by 1e-5 rad: nearly straight but fully determined; and a generic one with a neighbour resting exactly on its anchor), '
                  '1- and 2-atom references along 7 axis classes with all 9 combinations of a 3-entry draw menu at '
                  'construction and at call, 3 targets, 2 scale factors, the whole cube rotation group plus 3 generic '
                  'rotations, 3 translations (up to 135 nm), all executed on the real code; the 24 cube rotations are applied '
                  'to every geometry class for references up to 4 atoms in the thorough tier, otherwise to the generic, '
                  'collinear-x and collinear-z classes (the other classes get the identity and the 3 generic rotations)')
    level_note = ('trusted: numpy arithmetic, graph enumerator, in-memory builders, brute-force nearest-anchor assignment; '
                  'not covered: rotations outside the 27-element list, near-collinear references, draw values outside the menu '
                  '(in particular the zero vector), references above 5 atoms')
    assumptions = ['rotations: 24 signed permutation matrices (exact) + 3 generic from a QR table selected by VERIF_SEED',
                   'translations {0, (0.5,-1.25,2), (100,-50,75)} nm',
                   'frame-completion draws of 1-/2-atom references from a 3-entry menu (two generic vectors and one '
                   'degenerate: on the reference axis / two collinear draws); the zero vector is excluded',
                   'where the anchor of a mapped atom is exactly collinear with its two frame neighbours, or the reference '
                   'has two atoms, only the three invariants of the statement are compared; one atom: the distance']

    def units(self, tier, seed):
        nmax = 5 if tier == 'thorough' else 4
        self.bounds = {'ref_atoms': [1, nmax], 'graphs': {n: len(xm.ref_graphs(n)) for n in range(3, nmax + 1)},
                       'geometry_classes': list(xm.GEO) + list(xm.BENT) + list(xm.NEAR) + ['collapse', 'trigonal'], 'two_atom_axis_classes': list(AX2),
                       'targets': [list(t) for t in TARGETS], 'scale_factors': list(SCALES),
                       'rotations': 27, 'translations': 3,
                       'full_cube_group_on': {'n<=4': list(QUICK_CUBE) if tier != 'thorough' else list(xm.GEO), 'n=5': list(QUICK_CUBE)}, 'draw_menu': [3, 3], 'tolerance_nm': TOL}
        u = []
        for n in range(3, nmax + 1):
            for geo in list(xm.GEO) + list(xm.BENT) + list(xm.NEAR) + ['collapse', 'trigonal']:
                full = (tier == 'thorough' and n <= 4) or geo in QUICK_CUBE
                mod = {3: 1, 4: 18 if full else 3, 5: 96 if full else 16}[n]
                u += [{'k': 'g', 'n': n, 'geo': geo, 'mod': mod, 'r': r} for r in range(mod)]
        u += [{'k': 'hub', 'hub': h} for h in range(len(HUB_EXTRAS))]
        u += [{'k': 'ref2', 'ax': ax} for ax in AX2]
        u.append({'k': 'ref1'})
        return u

    def cases(self, unit, tier, seed):
        if unit['k'] == 'g':
            n = unit['n']
            for i, edges in enumerate(xm.ref_graphs(n)):
                if i % unit['mod'] != unit['r']:
                    continue
                # the whole cube group on generic + two axis classes; identity and the generic rotations
                # everywhere.  thorough, references up to 4 atoms: full product on every class.
                rs = 'all' if (tier == 'thorough' and n <= 4) or unit['geo'] in QUICK_CUBE else 'gen'
                for m, place in TARGETS:
                    for s in SCALES:
                        yield {'k': 'g', 'n': n, 'edges': edges, 'geo': unit['geo'], 'm': m, 'place': place,
                               's': s, 'rs': rs}
                # the target's coordinates held as float32 arrays (as a trajectory reader hands them over)
                yield {'k': 'g', 'n': n, 'edges': edges, 'geo': unit['geo'], 'm': 3, 'place': 'between',
                       's': 0.5, 'rs': 'gen', 'f32': 1}
                if unit['geo'] == 'generic':
                    # ... or as INTEGER arrays (atoms created from whole-number lattice coordinates)
                    yield {'k': 'g', 'n': n, 'edges': edges, 'geo': unit['geo'], 'm': 3, 'place': 'far',
                           's': 0.5, 'rs': 'gen', 'f32': 2}
        elif unit['k'] == 'hub':
            for s in SCALES:
                yield {'k': 'hub', 'hub': unit['hub'], 's': s}
        elif unit['k'] == 'ref2':
            for bonded in (1, 0):
                for s in SCALES:
                    for ci in range(3):
                        for cj in range(3):
                            yield {'k': 'ref2', 'ax': unit['ax'], 'bonded': bonded, 's': s, 'ci': ci, 'cj': cj}
        else:
            for s in SCALES:
                for ci in range(3):
                    for cj in range(3):
                        yield {'k': 'ref1', 's': s, 'ci': ci, 'cj': cj}

    # ------------------------------------------------------------------
    def check_case(self, case, R, seed):
        if case['k'] == 'hub':
            with owned_random(Draws([CONST_DRAW])):
                self._hub(case, R, seed)
        elif case['k'] == 'g':
            with owned_random(Draws([CONST_DRAW])):
                self._general(case, R, seed)
        else:
            self._small(case, R, seed)

    def _motions(self, case, seed):
        rots = rotations(seed)
        ris = [case['rot']] if 'rot' in case else ([0, 24, 25, 26] if case.get('rs') == 'gen' else range(len(rots)))
        tis = [case['tr']] if 'tr' in case else range(len(TRANSL))
        if case.get('geo') in xm.BENT and 'tr' not in case:
            # a frame fixed by a 2.5e-6 nm offset is conditioned ~1e-14/2.5e-6 per nm of translation: the 135 nm
            # translation would turn coordinate rounding into > 1e-8 nm at a 5 nm target (not a defect)
            tis = [0, 1]
        # the construction object itself moved IN PLACE (a map must not assume it still is where it was)
        if case.get('inplace'):
            yield case['rot'], case['tr'], rots[case['rot']], TRANSL[case['tr']], True
            return
        for ri in ris:
            for ti in tis:
                yield ri, ti, rots[ri], TRANSL[ti], False
        if 'inplace' in case:
            return
        for ri, ti in (INPLACE_BENT if case.get('geo') in xm.BENT else INPLACE):
            yield ri, ti, rots[ri], TRANSL[ti], True

    def _with_tiny(self, case, seed):
        """The motions of the case, preceded by a TINY translation (1e-6 nm, index -1) applied right after map(ref):
        the configuration mapped just before differs from it by less than any sensible tolerance, the result must
        still follow.  A moved reference with its OWN topology (deep copy) is motion index -2."""
        if 'rot' not in case or case.get('tr') == -1:
            yield 0, -1, np.eye(3), TINY_TR, False
            if case.get('tr') == -1:
                return
        yield from self._motions(case, seed)

    def _hub(self, case, R, seed):
        """A 20-atom chain with a hub atom bonded to many others (its bonded indices do not iterate in ascending
        order as a hash set), moved as an object with its OWN topology (deep copy): the frame of the hub is still
        built on its two LOWEST-numbered bonded atoms."""
        from gaddlemaps import ExchangeMap
        from mcx.build import generic_points
        n, h, s = 20, 10, case['s']
        edges = [(i, i + 1) for i in range(n - 1)] + [(min(h, j), max(h, j)) for j in HUB_EXTRAS[case['hub']]]
        rpos = generic_points(n, seed, tag=118) * 1.5
        anch = xm.anchors(n, edges)
        G = xm.direction_table(seed)
        tpos = np.array([rpos[h] + 0.03 * G[0], rpos[h] + 0.04 * G[1], rpos[h] - 0.035 * G[2]])
        if any(a != h for a in xm.ref_map(rpos, anch, tpos, s)[0]):
            raise RuntimeError('hub targets not anchored at the hub')
        ref = xm.ref_molecule(n, edges)
        ref.atoms_positions = rpos.copy()
        tgt = xm.tgt_molecule(3)
        tgt.atoms_positions = tpos.copy()
        try:
            emap = ExchangeMap(ref, tgt, s)
            base = emap(ref).atoms_positions
        except Exception as ex:
            R.violation('hub/build/exception', case, repr(ex))
            return
        rots = rotations(seed)
        for how in ('copy', 'deep_copy'):
            for ri in ([case['rot']] if 'rot' in case else (24, 25, 26, 5)):
                d = dict(case, rot=ri, how=how)
                if 'how' in case and case['how'] != how:
                    continue
                moved = ref.copy() if how == 'copy' else ref.deep_copy()
                tr = TRANSL[1]
                moved.atoms_positions = rpos @ rots[ri].T + tr
                try:
                    out = emap(moved).atoms_positions
                except Exception as ex:
                    R.violation('hub/call/exception', d, repr(ex))
                    continue
                err = float(np.abs(out - (base @ rots[ri].T + tr)).max())
                R.case(d, nontrivial=True, cls=f"hub{case['hub']}/{how}", outcome='full-equality')
                if not err <= TOL:
                    R.violation(f'hub/{how}/not-equivariant', d, f'|map(R ref+t) - (R map(ref)+t)| = {err:.3e}')

    def _general(self, case, R, seed):
        from gaddlemaps import ExchangeMap
        n, edges, geo, m, place, s = (case[x] for x in ('n', 'edges', 'geo', 'm', 'place', 's'))
        anch = xm.anchors(n, edges)
        fn = xm.frame_neighbours(n, edges)
        if geo == 'trigonal':
            # an atom with exactly three bonds in an IDEAL trigonal-planar environment (neighbours at 120 degrees, equal
            # bond lengths, in a plane of generic orientation): nothing collinear, the frame is fully determined
            deg = {}
            for a_, b_ in edges:
                deg.setdefault(a_, []).append(b_)
                deg.setdefault(b_, []).append(a_)
            hubs = [a_ for a_ in sorted(deg) if len(deg[a_]) == 3]
            if not hubs:
                return
            rpos = xm.ref_positions('generic', n, seed).copy()
            G = xm.direction_table(seed)
            e1 = G[5]
            e2 = np.cross(G[5], G[6])
            e2 /= np.linalg.norm(e2)
            for k_, nb_ in enumerate(sorted(deg[hubs[0]])):
                ang = 2.0 * np.pi * k_ / 3.0
                rpos[nb_] = rpos[hubs[0]] + 0.15 * (np.cos(ang) * e1 + np.sin(ang) * e2)
        elif geo == 'collapse':
            # generic, except that one anchor's lowest-numbered neighbour rests exactly ON it: the three frame points
            # are (trivially) collinear, the axis anchor -> second neighbour is all the reference determines
            rpos = xm.collapse_first_neighbour(xm.ref_positions('generic', n, seed), fn)
            if rpos is None:
                return
        else:
            rpos = xm.ref_positions(geo, n, seed)
        tpos = xm.target_positions(rpos, anch, m, place, seed)
        tdtype = {0: np.float64, 1: np.float32, 2: np.int64}[case.get('f32', 0)]
        if tdtype is np.int64:
            tpos = np.round(tpos * 4.0)          # whole numbers, a few nm around the reference
        tpos = tpos.astype(tdtype).astype(np.float64)
        assign, _, _ = xm.ref_map(rpos, anch, tpos, s)
        # anchors within ~1e-9 of collinear (classes NEAR) leave the axis undetermined in practice: like the exactly
        # collinear ones they are judged by the three invariants of the statement
        degenerate = [geo in xm.NEAR or xm.exactly_collinear(rpos, a, fn[a]) for a in assign]
        ref = xm.ref_molecule(n, edges)
        ref.atoms_positions = rpos.copy()
        tgt = xm.tgt_molecule(m)
        tgt.atoms_positions = tpos.astype(tdtype)
        try:
            emap = ExchangeMap(ref, tgt, s)
            tgt.atoms_positions = (tpos[::-1] * 0.5 + np.array([3.0, 1.0, -2.0])).astype(tdtype)    # the map keeps what it saw at construction
            base_mol = emap(ref)
            base = base_mol.atoms_positions
        except Exception as ex:
            R.case(case, nontrivial=False, outcome='exception', cls=f'n{n}/{geo}')
            R.violation(f'build/{geo}/exception', case, repr(ex))
            return
        if not np.all(np.isfinite(base)):
            R.case(case, nontrivial=False, outcome='non-finite', cls=f'n{n}/{geo}')
            R.violation(f'call/{geo}/non-finite', case, base.tolist())
            return
        moved = ref.copy()
        kind = 'axis-invariants' if all(degenerate) else ('full-equality' if not any(degenerate) else 'mixed')
        rots = rotations(seed)
        if isinstance(case.get('tr'), str):
            motions = [(case['rot'], case['tr'], rots[case['rot']], None, False)]
        else:
            motions = list(self._with_tiny(case, seed))
            if 'rot' not in case:
                # rotations about an axis THROUGH an anchor atom: that atom stays where it was, bit for bit, while its
                # frame neighbours (and so its frame) turn
                motions += [(ri, f'p{a}', rots[ri], None, False) for a in sorted(set(assign)) for ri in (24, 5)]
        for ri, ti, rot, tr, inplace in motions:
            cdesc = dict(case, rot=ri, tr=ti, inplace=int(inplace))
            if isinstance(ti, str):
                pv = int(ti[1:])
                tr = rpos[pv] - rot @ rpos[pv]
                mpos = rpos @ rot.T + tr
                mpos[pv] = rpos[pv]
            else:
                mpos = rpos @ rot.T + tr
            obj = ref if inplace else moved
            obj.atoms_positions = mpos
            rc = ('cube' if ri < 24 else 'genrot') + ('-inplace' if inplace else '')
            try:
                out = emap(obj).atoms_positions
            except Exception as ex:
                R.case(cdesc, nontrivial=False, outcome='exception', cls=f'n{n}/{geo}/{rc}')
                R.violation(f'call/{geo}/exception', cdesc, repr(ex))
                continue
            R.case(cdesc, nontrivial=not (ri == 0 and ti == 0), outcome=kind, cls=f'n{n}/{geo}/{rc}' + ('/about-anchor' if isinstance(ti, str) else ''))
            if not np.all(np.isfinite(out)):
                R.violation(f'call/{geo}/non-finite', cdesc, out.tolist())
                continue
            # map(ref) is read from the molecule returned for it (as a caller comparing the two results would do):
            # a later call must not have changed it
            base = base_mol.atoms_positions
            for k in range(m):
                a = assign[k]
                if not degenerate[k]:
                    err = float(np.abs(out[k] - (rot @ base[k] + tr)).max())
                    R.add('max_equivariance_err_e18', int(min(err, 1.0) * 1e18))
                    if err > TOL:
                        R.violation(f'call/{geo}/not-equivariant', cdesc,
                                    f'{rc} t{ti} atom {k}: |map(R ref+t) - (R map(ref)+t)| = {err:.3e}')
                        break
                else:
                    u = rpos[fn[a][1]] - rpos[a]
                    u = u / np.linalg.norm(u)
                    i0 = invariants(base[k] - rpos[a], u)
                    i1 = invariants(out[k] - mpos[a], rot @ u)
                    bad = [nm for nm, x, y in zip(('distance-to-anchor', 'axial-coordinate', 'distance-from-axis'), i0, i1)
                           if abs(x - y) > TOL]
                    R.add('max_invariant_err_e18', int(min(max(abs(x - y) for x, y in zip(i0, i1)), 1.0) * 1e18))
                    if bad:
                        R.violation(f'call/{geo}/{bad[0]}-not-kept', cdesc,
                                    f'{rc} t{ti} atom {k}: (dist, axial, radial) {i0} -> {i1}')
                        break

    # -- 1- and 2-atom references -----------------------------------------
    def _small(self, case, R, seed):
        from gaddlemaps import ExchangeMap
        s, ci, cj = case['s'], case['ci'], case['cj']
        G = xm.direction_table(seed)
        if case['k'] == 'ref2':
            ax = case['ax']
            if ax == 'generic':
                from mcx.build import generic_points
                rpos = generic_points(2, seed, tag=102)
            else:
                rpos = np.array([xm.OFFSET, xm.OFFSET + xm.STEP * np.array(AXDIR[ax], dtype=float)])
            v = rpos[1] - rpos[0]
            u = v / np.linalg.norm(v)
            ln = np.linalg.norm(v)
            tpos = np.array([rpos[0] + 0.4 * ln * G[0], rpos[1] + 0.7 * ln * G[1],
                             rpos[0] + 0.625 * v, rpos[0] - 0.375 * v + 0.5 * ln * G[2],
                             rpos.mean(axis=0) + 5.0 * G[3]])
            menu = draw_menu2(ax)
            ref = xm.ref_molecule(2, [(0, 1)] if case['bonded'] else [])
            name = f'ref2-{ax}'
        else:
            rpos = np.array([xm.OFFSET])
            u = None
            tpos = np.array([rpos[0] + 0.3 * G[0], rpos[0] + 0.05 * G[1], rpos[0] + 5.0 * G[3]])
            menu = MENU1
            ref = xm.ref_molecule(1, [])
            name = 'ref1'
        m = len(tpos)
        ref.atoms_positions = rpos.copy()
        tgt = xm.tgt_molecule(m)
        tgt.atoms_positions = tpos.copy()
        cj_base = (cj + 1) % 3
        try:
            with owned_random(Draws(menu[ci])):
                emap = ExchangeMap(ref, tgt, s)
            with owned_random(Draws(menu[cj_base])):
                base = emap(ref).atoms_positions
        except Exception as ex:
            R.case(case, nontrivial=False, outcome='exception', cls=name)
            R.violation(f'build/{name}/exception', case, repr(ex))
            return
        if not np.all(np.isfinite(base)):
            R.case(case, nontrivial=False, outcome='non-finite', cls=name)
            R.violation(f'call/{name}/non-finite', case, base.tolist())
            return
        moved = ref.copy()
        for ri, ti, rot, tr, inplace in self._motions(case, seed):
            cdesc = dict(case, rot=ri, tr=ti, inplace=int(inplace))
            mpos = rpos @ rot.T + tr
            obj = ref if inplace else moved
            obj.atoms_positions = mpos
            rc = ('cube' if ri < 24 else 'genrot') + ('-inplace' if inplace else '')
            try:
                with owned_random(Draws(menu[cj])):
                    out = emap(obj).atoms_positions
            except Exception as ex:
                R.case(cdesc, nontrivial=False, outcome='exception', cls=f'{name}/{rc}')
                R.violation(f'call/{name}/exception', cdesc, repr(ex))
                continue
            R.case(cdesc, nontrivial=True, outcome='axis-invariants' if u is not None else 'distance-only',
                   cls=f'{name}/{rc}')
            if not np.all(np.isfinite(out)):
                R.violation(f'call/{name}/non-finite', cdesc, out.tolist())
                continue
            for k in range(m):
                if u is None:
                    d0 = float(np.linalg.norm(base[k] - rpos[0]))
                    d1 = float(np.linalg.norm(out[k] - mpos[0]))
                    if abs(d0 - d1) > TOL:
                        R.violation(f'call/{name}/distance-to-atom-not-kept', cdesc, f'{rc} t{ti} atom {k}: {d0} -> {d1}')
                        break
                else:
                    i0 = invariants(base[k] - rpos[0], u)
                    i1 = invariants(out[k] - mpos[0], rot @ u)
                    bad = [nm for nm, x, y in zip(('distance-to-anchor', 'axial-coordinate', 'distance-from-axis'), i0, i1)
                           if abs(x - y) > TOL]
                    if bad:
                        R.violation(f'call/{name}/{bad[0]}-not-kept', cdesc,
                                    f'{rc} t{ti} atom {k}: (dist, axial, radial) {i0} -> {i1}')
                        break


CHECK = C02()
