"""C16 - ItpFile read-write-read loses no section, line or comment.

Enumerated completely (no sampling): (i) the 16 shipped topologies; (ii) generated files:
header in {none, comment + #include} x every sequence of sections (moleculetype, atoms, then up
to 2 (quick: 3 with bounded templates) / 3 (thorough) of bonds / dihedrals, repeats allowed) x a
line template per section x last line with / without final newline.  Every file is written to a
scratch directory, ItpFile(orig).write(p1), ItpFile(p1).write(p2); the original, p1 and p2 are
read by the independent reference reader (mcx.ref.itp) and compared item by item per section.
"""
import itertools
import os

from mcx.build import Scratch
from mcx.core import Check
from mcx.ref import itp
from mcx.seams import patched

KINDS = ('bonds', 'dihedrals')
TEMPLATES = ('plain', 'comment', 'empty', 'two', 'line', 'blank', 'ifdef')
EMPTIES_TEMPLATES = ('empty2', 'empty3', 'emptysp')          # several EMPTY trailing comments: ';;', ';;;', '; ;'
HASH_TEMPLATES = ('hashtrail', 'hashline')
EMPTY_TEMPLATES = ('nocontent', 'onlycomment', 'onlypp', 'void')
HEADER = ['; generated for the check', ';', '#include "forcefield.itp"', '']
BOND_POOL = ((1, 2), (2, 3), (3, 4), (1, 3), (2, 4), (1, 4), (1, 2), (3, 4))


def rows_of(sec, occ):
    """Content rows (token lists) of the occ-th occurrence of a section."""
    if sec == 'moleculetype':
        return [['MOLX', '3']]
    if sec == 'atoms':
        return [[str(i), 'CT', '1', 'MOL', 'C%d' % i, str(i), '0.000', '12.011'] for i in range(1, 5)]
    if sec == 'defaults':
        return [['1', '1', 'no', '1.0', '1.0']]
    if sec == 'atomtypes':
        return [['CT', '12.011', '0.000', 'A', '0.35', '0.276'], ['HC', '1.008', '0.000', 'A', '0.25', '0.125']]
    if sec == 'bonds':
        return [[str(a), str(b), '1', '0.153', '%d.0' % (1000 + occ)] for a, b in BOND_POOL[2 * occ:2 * occ + 2]]
    return [['1', '2', '3', '4', '9', '180.0', '%d.5' % (occ + 1), str(m)] for m in (2, 3)]


def decorate(rows, tpl, tag):
    lines = [' '.join(r) for r in rows]
    if tpl == 'plain':
        return lines
    if tpl == 'comment':
        # (the comment text holds braces - a set of atom numbers, an empty pair, a lone one)
        return ['%s ; %s note %d {2,3,4,5} {} }' % (ln, tag, i) for i, ln in enumerate(lines)]
    if tpl == 'empty':
        return [ln + ' ;' for ln in lines]
    if tpl in ('empty2', 'empty3', 'emptysp'):
        tail = {'empty2': ' ;;', 'empty3': ' ;;;', 'emptysp': ' ; ;'}[tpl]
        return [ln + tail for ln in lines]
    if tpl == 'void':                    # a header immediately followed by the next header (or the end of the file)
        return []
    if tpl == 'two':
        return ['%s ; %s a%d ; b%d' % (ln, tag, i, i) for i, ln in enumerate(lines)]
    if tpl == 'line':
        # whole-line comments, two of them ending in a backslash (a path, an ASCII drawing): comments all the same
        # ... and one holding characters that str.splitlines treats as line boundaries (form feed, U+2028, NEL) while a
        # text file does not
        return ['; columns of ' + tag + ' table 7\x0ctable 8\u2028part\x85b', ';   /  \\', lines[0],
                ';%s between, see D:\\top\\' % tag] + lines[1:]
    if tpl == 'blank':
        return ['', lines[0], '   '] + lines[1:]
    if tpl == 'ifdef':
        return ['#ifdef X_' + tag.upper()] + lines + ['#endif']
    if tpl == 'hashtrail':
        return ['%s ; #%d of %s' % (ln, i + 1, tag) for i, ln in enumerate(lines)]
    if tpl == 'indentpp':
        return [lines[0], '  #ifdef OLD_' + tag.upper(), '\t#include "old.itp"', '  #endif'] + lines[1:]
    # section occurrences WITHOUT any content line (legal: e.g. a [ dihedrals ] that only includes a file)
    if tpl == 'nocontent':
        return ['; propers of %s are kept in a separate file' % tag, '#include "%s_extra.itp"' % tag]
    if tpl == 'onlycomment':
        return ['; %s: none' % tag]
    if tpl == 'onlypp':
        return ['#include "%s_extra.itp"' % tag]
    if tpl == 'hashline':
        return [lines[0], ';#ifdef OLD_' + tag.upper(), '; #include "old.itp"'] + lines[1:]
    raise ValueError(tpl)


def render(secs, tpls, hdr, nl):
    out = list(HEADER) if hdr else []
    seen = {}
    for sec, tpl in zip(secs, tpls):
        occ = seen.get(sec, 0)
        seen[sec] = occ + 1
        out.append('[ %s ]' % sec)
        out += decorate(rows_of(sec, occ), tpl, '%s%d' % (sec[:4], occ))
    text = '\n'.join(out)
    return text + '\n' if nl else text


def template_vectors(length, full, dev=2):
    n = len(TEMPLATES)
    if full:
        yield from (list(v) for v in itertools.product(range(n), repeat=length))
        return
    for d in range(dev + 1):
        for where in itertools.combinations(range(length), d):
            for vals in itertools.product(range(1, n), repeat=d):
                v = [0] * length
                for w, x in zip(where, vals):
                    v[w] = x
                yield v


def subsets_concat(occs):
    """Concatenations of every proper, non-empty-complement subset of the occurrences (in order)."""
    k = len(occs)
    if k < 2 or k > 8:
        return
    for mask in range(0, (1 << k) - 1):
        yield [it for i in range(k) if mask >> i & 1 for it in occs[i]]


def diff_classes(A, B):
    """Failure classes of B (re-read) against A (what was there): list of (class, detail)."""
    if A.key() == B.key():
        return []
    out = []
    if A.header != B.header:
        out.append(('header-before-first-section-differs', (A.header[:4], B.header[:4])))
    if A.order != B.order:
        if set(A.order) - set(B.order):
            out.append(('section-missing', sorted(set(A.order) - set(B.order))))
        elif set(B.order) - set(A.order):
            out.append(('section-added', sorted(set(B.order) - set(A.order))))
        else:
            out.append(('section-order-differs', (A.order, B.order)))
    for s in A.order:
        a, b = A.items[s], B.items.get(s)
        if b is None or a == b:
            continue
        occs = [items for name, items in A.occurrences if name == s]
        if any(b == c for c in subsets_concat(occs)):
            out.append(('occurrence-of-repeated-section-dropped', '[ %s ]: %d items -> %d' % (s, len(a), len(b))))
            continue
        ca = [it[1] for it in a if it[0] == 'content']
        cb = [it[1] for it in b if it[0] == 'content']
        where = '[ %s ]: ' % s
        if ca != cb:
            if [t for r in ca for t in r] == [t for r in cb for t in r]:
                out.append(('content-lines-merged-or-split', where + repr(next((y for x, y in zip(ca, cb) if x != y), cb[-1:]))[:300]))
            else:
                k = next((i for i, (x, y) in enumerate(zip(ca, cb)) if x != y), min(len(ca), len(cb)))
                out.append(('content-lines-differ', where + 'row %d: %r -> %r' % (k, ca[k:k + 1], cb[k:k + 1])))
        elif [it[2] for it in a if it[0] == 'content'] != [it[2] for it in b if it[0] == 'content']:
            ta = [it[2] for it in a if it[0] == 'content']
            tb = [it[2] for it in b if it[0] == 'content']
            out.append(('trailing-comment-differs', where + repr(next((x, y) for x, y in zip(ta, tb) if x != y))))
        elif [it for it in a if it[0] == 'comment'] != [it for it in b if it[0] == 'comment']:
            out.append(('comment-lines-differ', where + repr(([it[1] for it in a if it[0] == 'comment'][:3],
                                                             [it[1] for it in b if it[0] == 'comment'][:3]))))
        elif [it for it in a if it[0] == 'pp'] != [it for it in b if it[0] == 'pp']:
            out.append(('preprocessor-lines-differ', where + repr(([it[1] for it in a if it[0] == 'pp'][:3],
                                                                  [it[1] for it in b if it[0] == 'pp'][:3]))))
        else:
            out.append(('item-positions-differ', where + repr((a[:4], b[:4]))))
    seen, uniq = set(), []
    for c, d in out:
        if c not in seen:
            seen.add(c)
            uniq.append((c, d))
    return uniq


class C16(Check):
    pid = 'C16'
    level = 'exploration'
    rule = ('case = one topology file = shipped file, or (header, section sequence, line template per section, final '
            'newline); distinct by descriptor; non-trivial = the file holds something a naive line filter would lose: '
            'a comment, preprocessor or blank line, an empty / multiple trailing comment, a repeated section name, a '
            'header or a missing final newline')
    technique = ('exhaustive enumeration of generated topology files and the shipped ones; real ItpFile read-write-read '
                 'twice, each file compared with an independent reference parse of the ORIGINAL text')
    level_text = ('all 16 shipped topologies and every generated file (2 headers x all section sequences of length <= 4 '
                  '(quick, plus length 5 with <= 2 sections off the plain template) / <= 5 (thorough, all) over moleculetype, '
                  'atoms, bonds*, dihedrals* x 7 line templates per section x final newline or not) are written and re-read '
                  'twice by the real code, plus two small families on moleculetype, atoms, bonds, dihedrals: comment text that '
                  'begins with "#" (trailing and comment-only) and indented directives, and section occurrences without any content '
                  'line (comment and/or #include only, or nothing at all) at every subset of positions in every tail of up to 3 sections; several EMPTY trailing comments (";;", ";;;", "; ;"); five shipped molecules written one after the other through the same output paths; a coverage statement over that '
                  'finite space')
    level_note = ('trusted: the reference reader mcx/ref/itp.py (self-tested). Reading of the statement: an item is a content '
                  'line (tokens + its trailing comment), a non-empty comment-only line or a preprocessor line; blank lines '
                  'and empty comments are not items; comment text is compared per ;-part after white-space normalisation '
                  '(the writer re-inserts a blank after ";"); items are compared per section name, concatenated over its '
                  'occurrences, sections in order of first appearance, so a line standing before a repeated header moves '
                  'with the section it follows; the header before the first section is compared as items too; a comment '
                  'on a section header line ("[moleculetype] ; text", vitamin_E_CG.itp line 1) is NOT an item - the '
                  'library drops it - it is counted as section_header_comments_not_compared. p1 is read right after '
                  'write() returns: the library never closes the handle explicitly, under CPython it is released on '
                  'return. read_topology of the original and of p1 is handed the ItpFile object the library has just '
                  'parsed from that same file (for writing) instead of parsing it again; p2 is parsed afresh. A file '
                  'with several [ moleculetype ] sections is merged per section name by the library: that satisfies the '
                  'statement as worded (items per section name) and is not generated. Not covered: other comment texts '
                  'than the templates, CRLF, section names outside the alphabet')
    assumptions = ['generated files use 7 line templates applied uniformly to all content lines of a section occurrence',
                   'comment texts are plain words, plus the family whose comment text begins with "#"']

    _dir = None

    def setup(self, tier, seed):
        assert itp.selftest()

    def units(self, tier, seed):
        import gaddlemaps
        data = os.path.join(os.path.dirname(gaddlemaps.__file__), 'data')
        shipped = sorted(f for f in os.listdir(data) if f.endswith('.itp'))
        thorough = tier == 'thorough'
        self.bounds = {'shipped_files': shipped, 'sections_max': 5, 'full_template_product_upto_sections': 5 if thorough else 4,
                       'template_deviations_beyond': 2, 'templates': list(TEMPLATES), 'section_alphabet':
                       ['moleculetype', 'atoms', 'bonds', 'dihedrals', 'dihedrals (again)', 'bonds (again)'],
                       'headers': 2, 'final_newline': 2, 'hash_comment_templates': list(HASH_TEMPLATES),
                       'indented_directive_template': 'one section at a time'}
        u = [{'k': 'shipped', 'file': f, 'size': os.path.getsize(os.path.join(data, f))} for f in shipped]
        u.sort(key=lambda x: -x['size'])
        for extra in (3, 2, 1, 0):
            for tail in itertools.product(KINDS, repeat=extra):
                secs = ['moleculetype', 'atoms'] + list(tail)
                full = thorough or len(secs) <= 4
                if full and len(secs) >= 4:
                    for pre in itertools.product(range(len(TEMPLATES)), repeat=2):
                        u.append({'k': 'gen', 'secs': secs, 'pre': list(pre), 'full': True})
                else:
                    u.append({'k': 'gen', 'secs': secs, 'pre': [], 'full': full})
        u.append({'k': 'hash'})
        for t in EMPTY_TEMPLATES:
            for ln in (1, 2, 3):
                u.append({'k': 'empty', 'tpl': t, 'len': ln})
        self.bounds['content_free_section_templates'] = {
            'templates': list(EMPTY_TEMPLATES), 'tails': 'every sequence of 1..3 sections over bonds, dihedrals',
            'placement': 'every non-empty subset of the tail positions; the other sections plain or with comments'}
        return u

    def cases(self, unit, tier, seed):
        if unit['k'] == 'shipped':
            yield {'k': 'shipped', 'file': unit['file']}
        elif unit['k'] == 'gen':
            secs, pre = unit['secs'], unit['pre']
            for v in template_vectors(len(secs) - len(pre), unit['full']):
                yield {'k': 'gen', 'secs': secs, 'tpl': [TEMPLATES[i] for i in pre + v]}
        elif unit['k'] == 'empty':
            ln = unit['len']
            for tail in itertools.product(KINDS, repeat=ln):
                for mask in range(1, 1 << ln):
                    for other in ('plain', 'comment'):
                        tpl = ['plain', 'plain'] + [unit['tpl'] if mask >> i & 1 else other for i in range(ln)]
                        yield {'k': 'gen', 'secs': ['moleculetype', 'atoms'] + list(tail), 'tpl': tpl, 'empty': 1}
        else:
            secs = ['moleculetype', 'atoms', 'bonds', 'dihedrals']
            for t in HASH_TEMPLATES:
                for pos in range(len(secs)):
                    tpl = ['plain'] * len(secs)
                    tpl[pos] = t
                    yield {'k': 'gen', 'secs': secs, 'tpl': tpl, 'hash': t}
            for pos in range(len(secs)):
                tpl = ['plain'] * len(secs)
                tpl[pos] = 'indentpp'
                yield {'k': 'gen', 'secs': secs, 'tpl': tpl, 'indent': 1}
            for t in EMPTIES_TEMPLATES:
                for pos in range(len(secs)):
                    for other in ('plain', 'comment'):
                        tpl = [other] * len(secs)
                        tpl[pos] = t
                        yield {'k': 'gen', 'secs': secs, 'tpl': tpl, 'empties': t}
            yield {'k': 'pathseq'}
            for t in ('plain', 'comment', 'two'):
                yield {'k': 'edit-then-other', 'tpl': t}
            # several molecules in one file: [ moleculetype ] itself is a repeated section name
            for tail in (['bonds'], ['bonds', 'dihedrals']):
                for t in ('plain', 'comment'):
                    secs2 = ['moleculetype', 'atoms'] + tail + ['moleculetype', 'atoms'] + tail
                    yield {'k': 'gen', 'secs': secs2, 'tpl': [t] * len(secs2), 'lead': 1, 'twomol': 1}
            # sections standing BEFORE [ moleculetype ] (a self-contained topology with its own defaults / atom types)
            for lead in (['defaults'], ['atomtypes'], ['defaults', 'atomtypes']):
                for tail in (['bonds'], ['bonds', 'dihedrals'], ['dihedrals', 'bonds', 'dihedrals']):
                    for t in ('plain', 'comment', 'line'):
                        secs2 = lead + ['moleculetype', 'atoms'] + tail
                        yield {'k': 'gen', 'secs': secs2, 'tpl': [t] * len(secs2), 'lead': 1}

    def run_unit(self, unit, tier, seed):
        with Scratch() as d:
            self._dir = d
            try:
                return super().run_unit(unit, tier, seed)
            finally:
                self._dir = None

    # ------------------------------------------------------------------
    def check_case(self, case, R, seed):
        if self._dir is None:
            with Scratch() as d:
                self._dir = d
                try:
                    return self.check_case(case, R, seed)
                finally:
                    self._dir = None
        d = self._dir
        if case['k'] == 'pathseq':
            # call history on the SAME output paths: different shipped molecules are written to p1 / p2 one after
            # the other; each written file must read back as ITS source (nothing remembered about a path may
            # outlive the file's content)
            import gaddlemaps
            data = os.path.join(os.path.dirname(gaddlemaps.__file__), 'data')
            files = sorted((os.path.getsize(os.path.join(data, f)), f) for f in os.listdir(data) if f.endswith('.itp'))
            for i, (_, f) in enumerate(files[:5] + files[:1]):
                src = os.path.join(data, f)
                sigs, outcome, A = roundtrip(src, _read(src), d)
                R.case(dict(case, step=i, file=f), nontrivial=i > 0, outcome=outcome, cls='same-paths-rewritten')
                for sig, det in sigs:
                    R.violation('same-paths-rewritten/' + sig, case, '%s (file %d of the sequence): %s' % (f, i, det))
                if sigs:
                    break
            return
        if case['k'] == 'edit-then-other':
            # call history over TWO files: the lines of a loaded file A are edited through their public setters (and A
            # is saved under another name); the round trip of an untouched file B holding lines of the same text must
            # still reproduce B
            from gaddlemaps.parsers import ItpFile
            secs = ['moleculetype', 'atoms', 'bonds', 'dihedrals', 'bonds']
            text = render(secs, [case['tpl']] * len(secs), 1, 1)
            pa, pb = os.path.join(d, 'a.itp'), os.path.join(d, 'b.itp')
            for p in (pa, pb):
                with open(p, 'w', encoding='utf-8') as fh:
                    fh.write(text)
            A = ItpFile(pa)
            for sec in ('atoms', 'bonds', 'dihedrals'):
                for i, ln in enumerate(A[sec]):
                    if ln.content:
                        ln.comment = 'fitted against the AA run (%d)' % i
            for ln in A['atoms']:
                if ln.content:
                    ln.charge = 0.25
                    ln.mass = 13.5
            A['dihedrals'][-1].content = '1 2 3 4 9 0.0 9.9 1'
            A.write(os.path.join(d, 'a_annotated.itp'))
            sigs, outcome, _ = roundtrip(pb, text, d)
            R.case(case, nontrivial=True, outcome=outcome, cls='other-file-edited-before')
            for sig, det in sigs:
                R.violation('after-editing-another-file/' + sig, case, det)
            return
        if case['k'] == 'shipped':
            import gaddlemaps
            src = os.path.join(os.path.dirname(gaddlemaps.__file__), 'data', case['file'])
            with open(src, encoding='utf-8') as fh:
                text = fh.read()
            sigs, outcome, A = roundtrip(src, text, d)
            R.case(case, nontrivial=True, outcome=outcome, cls='shipped')
            R.add('section_header_comments_not_compared', A.section_line_comments)
            for sig, det in sigs:
                R.violation(sig, case, '%s: %s' % (case['file'], det))
            return
        secs, tpls = case['secs'], case['tpl']
        prefix = ('several-molecules-in-one-file/' if case.get('twomol') else
                  'sections-before-moleculetype/' if case.get('lead') else
                  'several-empty-trailing-comments/' if case.get('empties') else
                  'section-without-content-lines/' if case.get('empty') else
                  'comment-text-starting-with-hash/' if case.get('hash') else
                  'indented-directive/' if case.get('indent') else '')
        variants = [(case['hdr'], case['nl'])] if 'hdr' in case else [(0, 1), (1, 1), (0, 0), (1, 0)]
        repeated = len(set(secs)) < len(secs)
        for hdr, nl in variants:
            cdesc = dict(case, hdr=hdr, nl=nl)
            text = render(secs, tpls, hdr, nl)
            src = os.path.join(d, 'p0.itp')
            with open(src, 'w', encoding='utf-8') as fh:
                fh.write(text)
            sigs, outcome, A = roundtrip(src, text, d)
            if prefix and sigs and not case.get('lead'):   # already wrong with plain lines: the main family reports it
                with open(src, 'w', encoding='utf-8') as fh:
                    fh.write(render(secs, ['plain'] * len(secs), hdr, nl))
                if roundtrip(src, render(secs, ['plain'] * len(secs), hdr, nl), d)[0]:
                    sigs = []
            nontrivial = repeated or bool(hdr) or not nl or any(t != 'plain' for t in tpls)
            R.case(cdesc, nontrivial=nontrivial, outcome=outcome,
                   cls='lead-sections' if case.get('lead') else 'empties' if case.get('empties') else 'empty-section' if case.get('empty') else 'hash' if case.get('hash') else 'indent' if case.get('indent') else 'gen/L%d/%s' % (len(secs), 'repeated' if repeated else 'single'))
            for sig, det in sigs:
                R.violation(prefix + sig, cdesc, det)


def _read(path):
    with open(path, encoding='utf-8') as fh:
        return fh.read()


def _topology(read_topology, path, parsed=None):
    """read_topology(path); `parsed` = the ItpFile the library has just built from that very file
    (handed to the reader instead of parsing the same file a second time)."""
    import gaddlemaps.parsers._top_parsers as tp
    try:
        if parsed is None:
            name, atoms, bonds = read_topology(path)
        else:
            with patched(tp, 'ItpFile', lambda fitp: parsed):
                name, atoms, bonds = read_topology(path)
        return ('ok', name, [tuple(a) for a in atoms], sorted({tuple(sorted(b)) for b in bonds}))
    except Exception as exc:
        return ('error', type(exc).__name__, repr(exc)[:200])


def roundtrip(src, text, d):
    """-> ([(signature, detail)], outcome, A). Stops at the first stage that lost something."""
    from gaddlemaps.parsers import ItpFile, read_topology
    A = itp.parse(text)
    outcome = '%dsec/%docc' % (len(A.order), len(A.occurrences))
    p1, p2 = os.path.join(d, 'p1.itp'), os.path.join(d, 'p2.itp')
    for p in (p1, p2):
        if os.path.exists(p):
            os.remove(p)
    try:
        it0 = ItpFile(src)
        it0.write(p1)
        t1 = _read(p1)
    except Exception as exc:
        return [('first-write/error/' + type(exc).__name__, repr(exc)[:300])], outcome, A
    B = itp.parse(t1)
    diffs = diff_classes(A, B)
    if diffs:
        return [('first-write/' + c, det) for c, det in diffs], outcome, A
    # "re-reading ... yields the same content lines (token by token)": what the LIBRARY reads from the file it
    # wrote, section by section, against the reference reading of the original
    try:
        reread = ItpFile(p1)
        for sec in A.order:
            want = [list(it[1]) for it in A.items[sec] if it[0] == 'content']
            got = [ln.content.split() for ln in reread[sec]] if sec in reread else None
            if got != want:
                k = next((i for i, (x, y) in enumerate(zip(got or [], want)) if x != y), min(len(got or []), len(want)))
                return [('re-read-by-the-library/content-tokens-differ',
                         '[ %s ] row %d: library %r, file %r' % (sec, k, (got or [None])[k:k + 1], want[k:k + 1]))], outcome, A
        keys = [k for k in reread if k != 'header']          # the library keeps the lines before the first section here
        if keys != A.order:
            return [('re-read-by-the-library/section-order-differs', (keys, A.order))], outcome, A
    except Exception as exc:
        return [('re-read-by-the-library/error/' + type(exc).__name__, repr(exc)[:300])], outcome, A
    try:
        it1 = ItpFile(p1)
        it1.write(p2)
        t2 = _read(p2)
    except Exception as exc:
        return [('second-write/error/' + type(exc).__name__, repr(exc)[:300])], outcome, A
    C = itp.parse(t2)
    diffs = diff_classes(B, C)
    if diffs:
        return [('second-write/not-stable/' + c, det) for c, det in diffs], outcome, A
    if _read(p1) != t1:
        return [('first-write/file-changed-after-write-returned', 'p1 grew after it was read')], outcome, A
    out = []
    t0 = _topology(read_topology, src, it0)
    for stage, p, parsed in (('first-write', p1, it1), ('second-write', p2, None)):
        tp = _topology(read_topology, p, parsed)
        if tp != t0:
            what = 'status' if tp[0] != t0[0] else ('error' if tp[0] == 'error' else
                                                   ('name', 'atoms', 'bonds')[[i for i in (1, 2, 3) if tp[i] != t0[i]][0] - 1])
            out.append(('read_topology/%s/%s-differs-from-original' % (stage, what), (t0[:2], tp[:2], tp[-1][:6])))
            break
    if t0[0] == 'ok':
        try:
            ref = itp.topology(A)
            want = ('ok', ref.name, ref.atoms, sorted({tuple(sorted(p)) for p in ref.pairs}))
        except Exception:
            want = None
        if want is not None and want != t0:
            out.append(('read_topology/original-differs-from-reference-reading', (want[1], t0[1], len(want[2]), len(t0[2]))))
    return out, outcome, A


CHECK = C16()
