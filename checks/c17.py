"""C17 - rotation matrices are proper rotations; local frames are orthonormal.

Enumerated completely (no sampling):
 * rotations: an axis alphabet (signed unit vectors, face / body diagonals, the
   permutations of (1,2,3), two generic axes; thorough: every non-zero integer axis in
   {-2..2}^3) x axis norms x an angle alphabet, and every ordered angle pair per
   (axis, norm) for the composition law;
 * frames: EVERY ordered triple of points of an integer lattice with first != third
   (contains every collinear direction with small integer components, every
   coincident-middle case, every axis-aligned case) x offset x scale, plus exactly /
   noisily collinear triples along larger integer directions.
"""
import itertools
import math

import numpy as np

from mcx.core import Check

TOL_ROT = 1e-12
TOL_COMP = 1e-10
TOL_FRAME = 1e-9
SCALES = (1e-3, 1.0, 1e3)
NOISY_DIRS = [(1, 2, 3), (3, -5, 7), (-2, 7, 3), (7, 1, -4), (0, 2, 5), (5, 0, -3), (-4, 9, 0),
              (11, 13, 17), (1, 1, 2), (-1, 3, 3)]
NOISY_T = (-1.0, 0.0, 1.0 / 3.0, 0.5, 0.7, 1.0, 2.0)
# nearly (not exactly) collinear: middle point this far off the line, relative to |p2 - p0|
NEAR_EPS = (1e-13, 1e-12, 1e-11, 1e-10, 3e-10, 1e-9, 1e-8, 1e-7, 1e-6, 1e-5, 1e-3)
NEAR_T = (1.0 / 3.0, 0.5, 0.7, -0.4, 1.6)

_CACHE = {}
DEGENERATE_TRIPLES = (((0, 0, 0), (0.5, 0.5, 0), (1, 1, 0)), ((0, 0, 0), (1, 2, 3), (2, 4, 6)),
                      ((1, 1, 1), (1, 1, 1), (2, 3, 4)), ((0, 0, 0), (-1, -1, -1), (1, 1, 1)))


def axes(tier, seed):
    out = []
    for i in range(3):
        for s in (1.0, -1.0):
            v = [0.0, 0.0, 0.0]
            v[i] = s
            out.append(v)
    for i, j in ((0, 1), (0, 2), (1, 2)):
        for si in (1.0, -1.0):
            for sj in (1.0, -1.0):
                v = [0.0, 0.0, 0.0]
                v[i], v[j] = si, sj
                out.append(v)
    out += [list(map(float, s)) for s in itertools.product((1, -1), repeat=3)]
    out += [list(map(float, p)) for p in itertools.permutations((1, 2, 3))]
    rng = np.random.default_rng([int(seed), 1709])
    out += [rng.uniform(-1, 1, 3).round(6).tolist() for _ in range(2)]
    if tier == 'thorough':
        have = {tuple(a) for a in out}
        for v in itertools.product(range(-2, 3), repeat=3):
            if any(v) and tuple(map(float, v)) not in have:
                out.append(list(map(float, v)))
    return out


def angles(tier):
    # 5e-4 / -2e-4: small enough for a "small angle" shortcut, large enough that a first-order one is visible
    a = [0.0, math.pi / 2, -math.pi / 2, math.pi, -math.pi, 2 * math.pi, 0.7, -0.7, 20.0, -20.0, 1e-9, 5e-4, -2e-4]
    if tier == 'thorough':
        a += [math.pi / 3, -2 * math.pi / 3, 1.0, -3.0, 6.0, -12.5, 1e-4, -1e-9, 19.999, 3 * math.pi]
    return a


def norms(tier):
    # the near-unit lengths sit on both sides of any "is it already normalised?" tolerance
    near_unit = [1.0 - 1e-6, 1.0 + 3e-6, 1.0 + 1e-9]
    if tier != 'thorough':
        return [1e-6, 1.0, 1e6] + near_unit
    return [1e-6, 1e-3, 1.0, 1e3, 1e6] + near_unit + [1.0 - 1e-4, 1.0 + 1e-12, 1.0 + 1e-3]


def lattice(tier):
    vals = (-1, 0, 1, 2) if tier == 'thorough' else (-1, 0, 1)
    return [list(p) for p in itertools.product(vals, repeat=3)]


def offsets(seed):
    key = ('off', seed)
    if key not in _CACHE:
        rng = np.random.default_rng([int(seed), 1723])
        # the last one: the far corner of a 1000 nm box (points small compared with their distance to the origin)
        _CACHE[key] = [np.zeros(3), rng.uniform(-2.0, 2.0, 3), np.array([704.0, -896.0, 512.0]) + rng.uniform(-2.0, 2.0, 3)]
    return _CACHE[key]


def geom_class(p0, p1, p2):
    """Exact (integer) classification of a lattice triple."""
    d = [b - a for a, b in zip(p0, p2)]
    e = [b - a for a, b in zip(p0, p1)]
    cr = (d[1] * e[2] - d[2] * e[1], d[2] * e[0] - d[0] * e[2], d[0] * e[1] - d[1] * e[0])
    if not any(e):
        return 'middle=first'
    if list(p1) == list(p2):
        return 'middle=third'
    if not any(cr):
        nz = sum(1 for x in d if x)
        return 'collinear-' + ('axis', 'face-diagonal', 'body-direction')[nz - 1]
    return 'planar'


class C17(Check):
    pid = 'C17'
    level = 'exploration'
    rule = ('rotation case = (axis, axis norm, angle) and (axis, norm, angle pair) for the composition law; '
            'frame case = (p0, p1, p2, offset, scale) for every ordered lattice triple with p0 != p2, plus '
            '(integer direction, position of the middle point on the line, offset, scale, input form list/(3,3) array); distinct by '
            'descriptor; non-trivial = rotation with sin or cos term active (angle != 0) / every frame '
            '(the frame is always computed); collinear and coincident-middle triples are counted per class')
    technique = ('exhaustive enumeration of an axis x norm x angle grid and of every ordered point triple of an '
                 'integer lattice on the real rotation_matrix / calcule_base, algebraic oracle on every result')
    level_text = ('34 axes (thorough: + every non-zero integer axis in {-2..2}^3) x 3 (5) norms from 1e-6 to 1e6 x '
                  '11 (21) angles in [-20, 20] and every angle pair per axis; every ordered triple of {-1,0,1}^3 '
                  '(quick, 18 954) / {-1,0,1,2}^3 (thorough, 258 048) with first != third x 3 offsets (origin, generic, the far corner of a 1000 nm box) x 3 scales, '
                  'plus 10 larger integer directions x 7 middle-point positions, are executed on the real code; '
                  'a coverage statement over that finite space, not a proof for all reals')
    level_note = ('trusted: numpy arithmetic and linalg.det/norm in the oracle; points that are nearly but not '
                  'exactly collinear with a relative deviation between 1e-10 and ~1e-6 are outside the alphabet '
                  '(there the conditioning of the normal, not the code path, decides the attainable accuracy)')
    assumptions = ['tolerances: 1e-12 for single rotation matrices, 1e-10 for the composition law, 1e-9 for frames '
                   '(design C17); the sense of rotation is not fixed by the statement and is not checked',
                   'frame inputs: a list of three float64 arrays; offsets {0, one generic vector of size <= 2 '
                   'selected by VERIF_SEED, (704, -896, 512) plus such a vector}; scales 1e-3, 1, 1e3',
                   'generic axes (2) selected by VERIF_SEED']

    # ------------------------------------------------------------------
    def units(self, tier, seed):
        ax = axes(tier, seed)
        lat = lattice(tier)
        self.bounds = {'axes': len(ax), 'axis_norms': norms(tier), 'angles': len(angles(tier)),
                       'angle_range': [-20, 20], 'lattice_values': sorted({p[0] for p in lat}),
                       'lattice_triples': len(lat) * (len(lat) - 1) * len(lat),
                       'offsets': 3, 'scales': list(SCALES), 'noisy_directions': len(NOISY_DIRS),
                       'noisy_middle_positions': len(NOISY_T)}
        u = [{'k': 'frames', 'p0': p0} for p0 in lat]
        step = 2 if tier != 'thorough' else 8
        u += [{'k': 'rot', 'lo': i, 'hi': min(i + step, len(ax))} for i in range(0, len(ax), step)]
        u.append({'k': 'noisy'})
        u += [{'k': 'near', 'dir': list(d)} for d in NOISY_DIRS]
        self.bounds['nearly_collinear_offsets'] = list(NEAR_EPS)
        return u

    def cases(self, unit, tier, seed):
        if unit['k'] == 'frames':
            p0 = unit['p0']
            for p2 in lattice(tier):
                if p2 != p0:
                    yield {'k': 'frame', 'p0': p0, 'p2': p2, 'tier': tier}
        elif unit['k'] == 'rot':
            ax = axes(tier, seed)
            for i in range(unit['lo'], unit['hi']):
                for nm in norms(tier):
                    yield {'k': 'rot', 'axis': ax[i], 'norm': nm, 'tier': tier}
        elif unit['k'] == 'near':
            for t in NEAR_T:
                for eps in NEAR_EPS:
                    for side in (0, 1):
                        yield {'k': 'near', 'dir': unit['dir'], 't': t, 'eps': eps, 'side': side}
        else:
            for d in NOISY_DIRS:
                yield {'k': 'noisy', 'dir': list(d)}

    # ------------------------------------------------------------------
    def check_case(self, case, R, seed):
        if case['k'] == 'rot':
            self._rot(case, R)
        elif case['k'] == 'frame':
            p0, p2 = case['p0'], case['p2']
            mids = [case['p1']] if 'p1' in case else lattice(case['tier'])
            for p1 in mids:
                cls = geom_class(p0, p1, p2)
                self._frames(dict(case, p1=p1), R, seed, np.array(p0, float), np.array(p1, float),
                             np.array(p2, float), cls)
        elif case['k'] == 'near':
            d = np.array(case['dir'], float)
            perp = np.cross(d, [0.0, 0.0, 1.0] if case['side'] == 0 else [1.0, 0.3, -0.2])
            perp /= np.linalg.norm(perp)
            p0 = np.array([0.25, -0.5, 1.0])
            p1 = p0 + case['t'] * d + case['eps'] * np.linalg.norm(d) * perp
            self._frames(case, R, seed, p0, p1, p0 + d, 'line-nearly-collinear')
        else:
            d = np.array(case['dir'], float)
            ts = [case['t']] if 't' in case else NOISY_T
            for t in ts:
                p0 = np.array([0.25, -0.5, 1.0])
                cls = 'line-' + ('middle=first' if t == 0 else 'middle=third' if t == 1 else 'noisy-collinear')
                self._frames(dict(case, t=t), R, seed, p0, p0 + t * d, p0 + d, cls)

    # -- rotations --------------------------------------------------------
    def _rot(self, case, R):
        from gaddlemaps._auxilliary import rotation_matrix
        unit = np.array(case['axis'], float)
        unit = unit / np.linalg.norm(unit)
        axis = unit * case['norm']
        angs = angles(case['tier'])
        eye = np.eye(3)
        mats = {}
        # the two functions of the module are used alternately by the library: degenerate frames are computed
        # before the rotations (nothing they leave behind may reach rotation_matrix), and what they returned is
        # looked at again afterwards
        from gaddlemaps._auxilliary import calcule_base
        held = []
        for tri in DEGENERATE_TRIPLES:
            try:
                b, _ = calcule_base([np.array(p, float) for p in tri])
                held.append(([np.asarray(v) for v in b], [np.array(v, float) for v in b]))
            except Exception:
                pass                      # reported by the frame cases
        single = [case['a']] if 'a' in case else range(len(angs))
        # ONE axis array object is handed to every call of the case (a caller reusing its axis): the function must not
        # write into it - seen through its consequences on the later matrices
        shared_axis = axis.copy()
        raw = {}
        for ia in (range(len(angs)) if 'b' in case or 'a' not in case else single):
            try:
                raw[ia] = rotation_matrix(shared_axis, angs[ia])
                mats[ia] = np.array(raw[ia], float)
            except Exception as exc:
                d = dict(case, a=ia)
                R.case(d, outcome='exception', cls='rot/exception')
                R.violation('rotation_matrix/exception', d, repr(exc))
                return
        # the matrices AS RETURNED are all held by the caller while the later ones are computed (Ra, Rb, then Ra @ Rb)
        for ia in raw:
            if not np.array_equal(np.asarray(raw[ia], float), mats[ia]):
                R.violation('rotation_matrix/matrix-returned-earlier-changed-by-a-later-call', dict(case, a=ia),
                            f'matrix for angle {angs[ia]!r} now reads {np.asarray(raw[ia]).tolist()}')
                break
        if 'b' not in case:
            for ia in single:
                th = angs[ia]
                m = mats[ia]
                d = dict(case, a=ia)
                sig = None
                if m.shape != (3, 3) or not np.all(np.isfinite(m)):
                    sig, det = 'rotation_matrix/non-finite', m.tolist()
                elif np.abs(m @ m.T - eye).max() > TOL_ROT:
                    sig, det = 'rotation_matrix/not-orthogonal', float(np.abs(m @ m.T - eye).max())
                elif abs(np.linalg.det(m) - 1.0) > TOL_ROT:
                    sig, det = 'rotation_matrix/det-not-plus-one', float(np.linalg.det(m))
                elif np.abs(m @ axis - axis).max() > TOL_ROT * case['norm']:
                    sig, det = 'rotation_matrix/axis-not-fixed', (m @ axis - axis).tolist()
                elif abs(np.trace(m) - (1.0 + 2.0 * math.cos(th))) > TOL_ROT:
                    sig, det = 'rotation_matrix/trace', (float(np.trace(m)), 1.0 + 2.0 * math.cos(th))
                else:
                    try:
                        minus = np.array(rotation_matrix(shared_axis, -th), float)
                        one = np.array(rotation_matrix(unit.copy(), th), float)
                    except Exception as exc:
                        sig, det = 'rotation_matrix/exception', repr(exc)
                    else:
                        if np.abs(minus - m.T).max() > TOL_ROT:
                            sig, det = 'rotation_matrix/minus-theta-not-transpose', float(np.abs(minus - m.T).max())
                        elif np.abs(one - m).max() > TOL_ROT:
                            sig, det = 'rotation_matrix/depends-on-axis-length', float(np.abs(one - m).max())
                        elif case['norm'] == 1.0 and all(float(x).is_integer() for x in case['axis']):
                            # the same direction given with INTEGER components (an integer array, a list of ints)
                            try:
                                ia_ = [int(x) for x in case['axis']]
                                for form, ax in (('int-array', np.array(ia_, dtype=np.int64)), ('int-list', ia_)):
                                    mi = np.array(rotation_matrix(ax, th), float)
                                    if not np.abs(mi - m).max() <= TOL_ROT:
                                        sig, det = 'rotation_matrix/integer-typed-axis-differs', (form, float(np.abs(mi - m).max()))
                                        break
                            except Exception as exc:
                                sig, det = 'rotation_matrix/exception', 'integer-typed axis: ' + repr(exc)
                R.case(d, nontrivial=th != 0.0, cls=f"rot/norm{case['norm']:g}",
                       outcome='identity' if np.array_equal(m, eye) else 'rotation')
                if sig:
                    R.violation(sig, d, det)
        # the caller does what it likes with ITS matrices (here: scales them in place); asking for the same rotation
        # again gives the same matrix as the first time
        if 'b' not in case:
            for ia in single:
                try:
                    if isinstance(raw[ia], np.ndarray):
                        raw[ia] *= 2.0
                    again = np.array(rotation_matrix(shared_axis, angs[ia]), float)
                except Exception as exc:
                    R.violation('rotation_matrix/exception', dict(case, a=ia), repr(exc))
                    break
                if not np.array_equal(again, mats[ia]):
                    R.violation('rotation_matrix/same-arguments-another-matrix-after-the-caller-edited-its-copy',
                                dict(case, a=ia), float(np.abs(again - mats[ia]).max()))
                    break
        for vecs, snap in held:
            if any(not np.array_equal(np.asarray(v, float), w) for v, w in zip(vecs, snap)):
                R.violation('calcule_base/frame-returned-earlier-changed-by-later-calls', dict(case),
                            [np.asarray(v).tolist() for v in vecs])
                break
        if 'a' in case and 'b' not in case:
            return
        pairs = ([(case['a'], case['b'])] if 'b' in case else
                 [(i, j) for i in range(len(angs)) for j in range(len(angs))])
        for ia, ib in pairs:
            d = dict(case, a=ia, b=ib)
            try:
                both = np.array(rotation_matrix(shared_axis, angs[ia] + angs[ib]), float)
            except Exception as exc:
                R.case(d, outcome='exception')
                R.violation('rotation_matrix/exception', d, repr(exc))
                continue
            err = float(np.abs(mats[ia] @ mats[ib] - both).max())
            R.case(d, nontrivial=angs[ia] != 0.0 and angs[ib] != 0.0, cls='rot/composition')
            if not err <= TOL_COMP:
                R.violation('rotation_matrix/composition', d, err)

    # -- frames -----------------------------------------------------------
    def _frames(self, case, R, seed, q0, q1, q2, cls):
        from gaddlemaps._auxilliary import calcule_base
        offs = offsets(seed)
        oi = [case['off']] if 'off' in case else range(len(offs))
        sc = [case['scale']] if 'scale' in case else SCALES
        forms = [case['form']] if 'form' in case else ('list', 'array', 'farray')
        first_frame = None
        for o in oi:
            for s, form in itertools.product(sc, forms):
                d = dict(case, off=o, scale=s, form=form)
                pts = [q0 * s + offs[o], q1 * s + offs[o], q2 * s + offs[o]]
                keep = [p.copy() for p in pts]
                # the three points as a list of vectors, as one (3, 3) float array, or Fortran-ordered
                arg = pts if form == 'list' else (np.array(pts) if form == 'array' else np.asfortranarray(np.array(pts)))
                if form != 'list':
                    pts = [arg[0], arg[1], arg[2]]
                try:
                    base, origin = calcule_base(arg)
                    B = np.array([np.asarray(v, float) for v in base])
                    origin = np.array(origin, float)
                except Exception as exc:
                    R.case(d, outcome='exception', cls=f'frame/{cls}')
                    R.violation(f'calcule_base/{cls}/exception', d, repr(exc))
                    continue
                sig = None
                v02 = keep[2] - keep[0]
                v01 = keep[1] - keep[0]
                n02 = np.linalg.norm(v02)
                n01 = np.linalg.norm(v01)
                if any(not np.array_equal(a, b) for a, b in zip(pts, keep)):
                    sig, det = 'input-modified', [p.tolist() for p in pts]
                elif B.shape != (3, 3) or not np.all(np.isfinite(B)):
                    sig, det = 'non-finite', B.tolist()
                elif np.abs(B @ B.T - np.eye(3)).max() > TOL_FRAME:
                    sig, det = 'not-orthonormal', float(np.abs(B @ B.T - np.eye(3)).max())
                elif abs(np.linalg.det(B) - 1.0) > TOL_FRAME:
                    sig, det = 'not-right-handed', float(np.linalg.det(B))
                elif np.abs(B[0] - v02 / n02).max() > TOL_FRAME:
                    sig, det = 'first-vector-not-towards-third-point', (B[0].tolist(), (v02 / n02).tolist())
                elif abs(B[2] @ v02) > TOL_FRAME * n02 or abs(B[2] @ v01) > TOL_FRAME * n01:
                    sig, det = 'third-vector-not-normal-to-plane', (float(B[2] @ v02 / n02),
                                                                    float(B[2] @ v01 / max(n01, 1e-300)))
                elif origin.shape != (3,) or np.abs(origin - keep[0]).max() > 1e-12 * max(1.0, np.abs(keep[0]).max()):
                    sig, det = 'origin-not-first-point', origin.tolist()
                R.case(d, nontrivial=True, cls=f'frame/{cls}',
                       outcome=cls if cls.startswith('line') else cls.split('-')[0])
                if sig:
                    R.violation(f'calcule_base/{cls}/{sig}', d, det)
                elif first_frame is None:
                    first_frame = ([np.asarray(v) for v in base], B.copy(), d)
        # interplay inside one case: a rotation computed right after these frames is still a proper rotation, and
        # the first frame returned in this case still holds the vectors it was returned with
        from gaddlemaps._auxilliary import rotation_matrix
        try:
            m = np.array(rotation_matrix(np.array([0.0, 0.0, 1.0]), 0.3), float)
            if np.abs(m @ m.T - np.eye(3)).max() > TOL_ROT or abs(np.linalg.det(m) - 1.0) > TOL_ROT:
                R.violation(f'rotation_matrix/not-orthogonal-after-computing-frames', dict(case),
                            float(np.abs(m @ m.T - np.eye(3)).max()))
        except Exception as exc:
            R.violation('rotation_matrix/exception', dict(case), repr(exc))
        if first_frame is not None and not np.array_equal(np.array([np.asarray(v, float) for v in first_frame[0]]),
                                                          first_frame[1]):
            R.violation('calcule_base/frame-returned-earlier-changed-by-later-calls', first_frame[2], '')


CHECK = C17()
