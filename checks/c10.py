"""C10 - restraint pairs always designate the atoms the user (or the guesser) meant.

Four exhaustively enumerated parts (no sampling), all on the real code:

(a) Alignment level: ``gaddlemaps._alignment.minimize_molecules`` is replaced by a
    recorder; every (n_start, n_end) of a size table x every hydrogen placement on the
    larger molecule x every restraint list up to a length x ignore_hydrogens.  A pair
    (a, b) received by the optimiser designates the atoms whose coordinates are
    fixed_positions[a] / mobile_positions[b] (all coordinates are distinct).
    (a2) the same oracle for restrictions=None on multi-residue molecules (guessed list).
(b) guess_residue_restrains for all 40 x 40 residue lengths x offsets {0,7} x {0,11}.
(c) guess_protein_restrains for every pair of residue-length vectors (<= 3 residues of
    1..4 atoms): 84 x 84.
(d) Manager.align_molecules option routing with Alignment.align_molecules recorded:
    2 species (full product of the option alphabets) and 3 species (at most D non-default
    options).
"""
import itertools

import numpy as np

from mcx import enum as en
from mcx.build import MemFile, generic_points, gro_text, itp_text, molecule
from mcx.core import Check
from mcx.seams import patched, quiet_stdout

SIZES_QUICK = [(2, 4), (4, 2), (3, 3), (4, 3), (3, 4)]
SIZES_THOROUGH = SIZES_QUICK + [(5, 3), (3, 5)]
GUESS_VECS = [(1, 1), (1, 2), (2, 1), (2, 2)]
CORNER_NAMES = ('HA1', '1H2', 'h1')

# ---- part (d) alphabets -----------------------------------------------------------
SPECIES = [('SA', 3, 4), ('SB', 4, 2), ('SC', 2, 3)]     # name, atoms at start, atoms at end
R_OPTS = ('absent', 'empty', 'valid', 'oor-start', 'oor-end', 'malformed')
D_OPTS = ('absent', 'none', '(0,)', '(0,1)', '(0,1,2)', 'int5', '(0,1,2,0)')
G_OPTS = ('absent', 'true', 'false', 'str-yes')
R_BAD = {3: 'restr-out-of-range', 4: 'restr-out-of-range', 5: 'restr-malformed'}
D_BAD = {5: 'deformation', 6: 'deformation'}
G_BAD = {3: 'ignore'}
D_VALUES = {1: None, 2: (0,), 3: (0, 1), 4: (0, 1, 2), 5: 5, 6: (0, 1, 2, 0)}
G_VALUES = {1: True, 2: False, 3: 'yes'}
UNKNOWN = 'ZZ'


def restr_value(s, opt):
    _, n0, n1 = SPECIES[s]
    if opt == 1:
        return []
    if opt == 2:
        return [(s % n0, (s + 1) % n1), (0, n1 - 1)]
    if opt == 3:
        return [(0, 0), (n0, 0)]
    if opt == 4:
        return [(0, n1), (0, 0)]
    if opt == 5:
        return [(0, 1), (0, 1, 2)]
    raise AssertionError(opt)


# ---- relation oracle for the guessers ---------------------------------------------
def relation_defect(pairs, n1, n2, o1=0, o2=0, pos1=None, pos2=None):
    """First defect (short string) of a guessed restraint list, or None.

    pos1/pos2: residue sequence position of every atom (protein guesser only).
    Groups are the connected components of the pairing; demanded: indices in range,
    only same-position residues, every atom of both sides has a partner, every group is
    a contiguous run on both sides, and the groups come in the same order on both sides.
    """
    P = []
    for p in pairs:
        try:
            i, j = p
        except (TypeError, ValueError):
            return 'entry-not-a-pair'
        if isinstance(i, bool) or isinstance(j, bool) or i != int(i) or j != int(j):
            return 'index-not-integer'
        P.append((int(i), int(j)))
    for i, j in P:
        if not (o1 <= i < o1 + n1 and o2 <= j < o2 + n2):
            return 'index-out-of-range'
    if pos1 is not None:
        for i, j in P:
            if pos1[i - o1] != pos2[j - o2]:
                return 'pair-across-residue-positions'
    if len({i for i, _ in P}) < n1:
        return 'atom-of-first-without-partner'
    if len({j for _, j in P}) < n2:
        return 'atom-of-second-without-partner'
    parent = {}

    def find(x):
        while parent.setdefault(x, x) != x:
            parent[x] = parent[parent[x]]
            x = parent[x]
        return x
    for i, j in P:
        ra, rb = find(('a', i)), find(('b', j))
        if ra != rb:
            parent[ra] = rb
    groups = {}
    for i, j in P:
        g = groups.setdefault(find(('a', i)), (set(), set()))
        g[0].add(i)
        g[1].add(j)
    glist = sorted(groups.values(), key=lambda g: min(g[0]))
    for I, J in glist:
        if len(I) != max(I) - min(I) + 1 or len(J) != max(J) - min(J) + 1:
            return 'group-not-contiguous'
    mins = [min(J) for _, J in glist]
    if any(b <= a for a, b in zip(mins, mins[1:])):
        return 'atom-order-not-preserved'
    return None


def all_vectors(max_res=3, max_len=4):
    out = []
    for k in range(1, max_res + 1):
        out += list(itertools.product(range(1, max_len + 1), repeat=k))
    return out


def atom_names(n, hmask):
    return [(f'H{i + 1}' if hmask >> i & 1 else f'C{i + 1}') for i in range(n)]


def res_molecule(name, vec, seed, tag, hmask=0, same=False):
    """same=True: every residue carries the SAME residue name (a homopolymer whose residues differ in size,
    e.g. capped termini); residues are then told apart by their numbers only."""
    names = atom_names(sum(vec), hmask)
    atoms, k = [], 0
    for p, ln in enumerate(vec):
        for _ in range(ln):
            atoms.append((names[k], 'RA' if same else 'R' + 'ABCDEF'[p], p + 1))
            k += 1
    if same:
        # built from the components directly: System identifies a residue kind by (name, size) and cannot hold two
        # such residues with different atom names (outside C11's premise), which a homopolymer needs
        from gaddlemaps.components import AtomGro, Molecule, Residue
        from mcx.build import molecule_top
        pts = generic_points(k, seed, tag=tag)
        top = molecule_top(name, atoms, en.chain(k))
        residues, i = [], 0
        for p, ln in enumerate(vec):
            residues.append(Residue([AtomGro([p + 1, 'RA', atoms[i + j][0], i + j + 1] + list(map(float, pts[i + j])))
                                     for j in range(ln)]))
            i += ln
        return Molecule(top, residues)
    return molecule(name, atoms, en.chain(k), generic_points(k, seed, tag=tag))


_CACHE = {}


def cached(key, make):
    if key not in _CACHE:
        if len(_CACHE) > 4000:
            _CACHE.clear()
        _CACHE[key] = make()
    return _CACHE[key]


class C10(Check):
    pid = 'C10'
    level = 'exploration'
    rule = ('case = (n_start, n_end, hydrogen mask of the larger molecule, hydrogen on the smaller one, '
            'restraint list, ignore_hydrogens) | (len1, len2, offset1, offset2) | (residue-length vector 1, '
            'vector 2) | (per-species option choices, unknown-name flags, dict order/empty variant); distinct '
            'by descriptor; non-trivial = a non-empty restraint list reached (or had to reach) the optimiser / '
            'a guess was produced or refused / at least one non-default manager option')
    technique = ('exhaustive enumeration of sizes x hydrogen placements x restraint lists x ignore flag with the '
                 'optimiser entry point replaced by a recorder (atoms identified by their distinct coordinates); '
                 'exhaustive residue-length tables for the guessers; full / deviation-bounded product of the '
                 'manager option alphabets with Alignment.align_molecules recorded')
    level_text = ('every restraint list of length <= 2 (quick) / 3 (thorough) over all index pairs, every hydrogen '
                  'placement leaving one heavy atom, both role assignments and the tie, both hydrogen settings; all '
                  '40 x 40 residue lengths with 4 offset pairs; all 84 x 84 residue-length vectors; the full '
                  'product of the option alphabets for 2 species and all <= 3 (quick) / 4 (thorough) deviations '
                  'for 3 species are executed on the real code: a coverage statement over that finite space')
    level_note = ('trusted: the in-memory builders, exact float identity of coordinates copied by the library, the '
                  'recorder seams. Readings chosen where the documentation is ambiguous (the ones the present code '
                  'can satisfy): the fixed molecule is the one whose coordinates are the first argument of the '
                  'optimiser (larger molecule; on equal sizes the code fixes the start molecule - only counted, not '
                  'demanded); a pair is expected to be dropped only if ignore_hydrogens is on, its fixed-side atom '
                  'has element H and that atom was indeed filtered out; `HA1`, `1H2`, `h1` are only counted; '
                  'Manager restraint indices are compared as passed (the docstring says .itp atom numbers, '
                  '_validate_index passes them through as 0-based indices; the statement only asks that they reach '
                  'the species); an absent or empty restraint list may arrive as None or []; "preserve atom order" '
                  'is read on groups (connected components of the pairing): contiguous on both sides and in the '
                  'same order; a guess for two single-residue molecules may be refused (statement speaks of '
                  'multi-residue molecules). Not covered: molecules above 5 atoms in (a), negative indices, '
                  'parse_restrictions=False, guess_proteins=True.')
    assumptions = ['all atoms at distinct generic coordinates (table selected by VERIF_SEED); both molecules are '
                   'chains; hydrogens named H<i>, heavy atoms C<i>',
                   'manager alphabets: restrictions {absent, [], valid, start index out of range, end index out of '
                   'range, 3-tuple}, deformation {absent, None, (0,), (0,1), (0,1,2), 5, (0,1,2,0)}, ignore '
                   '{absent, True, False, "yes"}, unknown species name ZZ in each dictionary']

    # ------------------------------------------------------------------ units
    def units(self, tier, seed):
        thorough = tier == 'thorough'
        sizes = SIZES_THOROUGH if thorough else SIZES_QUICK
        L = 3 if thorough else 2
        D = 4 if thorough else 3
        self.bounds = {'align_sizes': [list(s) for s in sizes], 'restraint_list_len_max': L,
                       'hydrogen_masks': 'all 2^n-1 on the larger molecule x {none, atom 0} on the smaller '
                                         '(5-atom sizes: the atom-0 variant only with lists up to length 2)',
                       'splitter_lengths': [40, 40], 'splitter_offsets': [[0, 7], [0, 11]],
                       'protein_vectors': 84, 'manager_species': [2, 3], 'manager3_max_deviations': D,
                       'guess_align_vectors': [list(v) for v in GUESS_VECS]}
        u = []
        big = sorted(sizes, key=lambda s: -(s[0] * s[1]))
        for ns, ne in big:
            nl = max(ns, ne)
            for hm in range(2 ** nl - 1):
                for mh in (0, 1):
                    if ns * ne >= 15:       # 5-atom sizes: hydrogen on the smaller molecule only to length 2
                        for ign in (1, 0):
                            u.append({'k': 'align', 'ns': ns, 'ne': ne, 'hm': hm, 'mh': mh,
                                      'L': min(L, 2) if mh else L, 'igns': [ign]})
                    else:
                        u.append({'k': 'align', 'ns': ns, 'ne': ne, 'hm': hm, 'mh': mh, 'L': L, 'igns': [1, 0]})
        for a in range(len(R_OPTS)):
            for b in range(len(D_OPTS)):
                u.append({'k': 'mgr2', 'r': a, 'd': b})
        for first in range(-1, 12):
            u.append({'k': 'mgr3', 'first': first, 'D': D})
        for v in all_vectors():
            u.append({'k': 'protein', 'v1': list(v)})
        for v1 in GUESS_VECS:
            for v2 in GUESS_VECS:
                u.append({'k': 'alignguess', 'v1': list(v1), 'v2': list(v2)})
        for n1 in range(1, 41, 4):
            u.append({'k': 'split', 'lo': n1, 'hi': n1 + 4})
        u.append({'k': 'corner'})
        return u

    # ------------------------------------------------------------------ cases
    def cases(self, unit, tier, seed):
        k = unit['k']
        if k in ('align', 'corner'):
            yield dict(unit)
        elif k == 'alignguess':
            n1, n2 = sum(unit['v1']), sum(unit['v2'])
            nl = max(n1, n2)
            for hm in range(2 ** nl - 1):
                for mh in (0, 1):
                    for ign in (1, 0):
                        yield dict(unit, hm=hm, mh=mh, ign=ign)
        elif k == 'split':
            for n1 in range(unit['lo'], unit['hi']):
                for n2 in range(1, 41):
                    for o1 in (0, 7):
                        for o2 in (0, 11):
                            yield {'k': 'split', 'n1': n1, 'n2': n2, 'o1': o1, 'o2': o2}
        elif k == 'protein':
            for v2 in all_vectors():
                yield {'k': 'protein', 'v1': unit['v1'], 'v2': list(v2)}
        elif k == 'mgr2':
            for g in range(len(G_OPTS)):
                yield {'k': 'mgr2', 'a': [unit['r'], unit['d'], g]}
        elif k == 'mgr3':
            yield from self._mgr3_cases(unit['first'], unit['D'])

    @staticmethod
    def _mgr3_cases(first, D):
        # slots 0..8 = (species, kind), 9..11 = unknown name in restrictions/deformation/ignore
        nondef = []
        for s in range(3):
            nondef += [len(R_OPTS) - 1, len(D_OPTS) - 1, len(G_OPTS) - 1]
        nondef += [1, 1, 1]
        if first < 0:
            for emp in (0, 1):
                yield {'k': 'mgr', 'ns': 3, 'opt': [[0, 0, 0]] * 3, 'unk': [0, 0, 0], 'rev': 0, 'emp': emp}
            return
        rest = list(range(first + 1, 12))
        for extra in range(0, D):
            for combo in itertools.combinations(rest, extra):
                slots = (first,) + combo
                for vals in itertools.product(*[range(1, nondef[s] + 1) for s in slots]):
                    opt = [[0, 0, 0] for _ in range(3)]
                    unk = [0, 0, 0]
                    for s, v in zip(slots, vals):
                        if s < 9:
                            opt[s // 3][s % 3] = v
                        else:
                            unk[s - 9] = v
                    for rev in (0, 1):
                        yield {'k': 'mgr', 'ns': 3, 'opt': opt, 'unk': unk, 'rev': rev, 'emp': rev}

    # ------------------------------------------------------------------ dispatch
    def check_case(self, case, R, seed):
        k = case['k']
        if k == 'align':
            self._align(case, R, seed)
        elif k == 'alignguess':
            self._align(case, R, seed)
        elif k == 'corner':
            self._corner(case, R, seed)
        elif k == 'split':
            self._split(case, R, seed)
        elif k == 'protein':
            self._protein(case, R, seed)
        elif k == 'mgr2':
            a = case['a']
            for r in range(len(R_OPTS)):
                for d in range(len(D_OPTS)):
                    for g in range(len(G_OPTS)):
                        for unk in ([0, 0, 0], [1, 0, 0], [0, 1, 0], [0, 0, 1]):
                            for rev in (0, 1):
                                sub = {'k': 'mgr', 'ns': 2, 'opt': [a, [r, d, g]], 'unk': unk,
                                       'rev': rev, 'emp': rev}
                                self._manager(sub, R, seed)
        elif k == 'mgr':
            self._manager(case, R, seed)
        else:
            raise AssertionError(k)

    # ------------------------------------------------------------------ (a)
    def _align_molecules(self, case, seed):
        if case['k'] == 'alignguess':
            v1, v2 = tuple(case['v1']), tuple(case['v2'])
            ns, ne = sum(v1), sum(v2)
        else:
            ns, ne = case['ns'], case['ne']
            v1, v2 = (ns,), (ne,)
        hm, mh = case['hm'], case['mh']
        start_fixed_by_rule = ns >= ne
        hs, he = (hm, mh) if start_fixed_by_rule else (mh, hm)

        def make():
            s = res_molecule('MOL', v1, seed, 100 + ns, hs)
            e = res_molecule('MOL', v2, seed, 200 + ne, he)
            return s, e
        s, e = cached(('align', v1, v2, hs, he, seed), make)
        return s, e, ns, ne, atom_names(ns, hs), atom_names(ne, he), start_fixed_by_rule

    def _align(self, case, R, seed):
        import gaddlemaps._alignment as al
        from gaddlemaps import Alignment, guess_protein_restrains
        start, end, ns, ne, names_s, names_e, rule_start_fixed = self._align_molecules(case, seed)
        guess = case['k'] == 'alignguess'
        if guess:
            # None = let the library guess; [] = the user explicitly asks for NO restraints on the same
            # multi-residue molecules (nothing may be guessed then)
            lists, igns = ([None, []] if 'empty' not in case else [[] if case['empty'] else None]), [case['ign']]
        elif 'restr' in case:
            lists, igns = [[tuple(p) for p in case['restr']]], [case['ign']]
        else:
            pairs = [(i, j) for i in range(ns) for j in range(ne)]
            lists = [list(c) for ln in range(case['L'] + 1) for c in itertools.product(pairs, repeat=ln)]
            igns = case['igns']
        role = 'tie' if ns == ne else ('start-larger' if ns > ne else 'end-larger')
        rec = []
        holder = {}

        def recorder(mol1, mol2, com, sigma, n_steps, restr, *rest):
            ali = holder['ali']
            rec.append((np.array(mol1, dtype=float), np.array(mol2, dtype=float), list(restr),
                        ali.start.atoms_positions, ali.end.atoms_positions))
            return mol2

        with patched(al, 'minimize_molecules', recorder):
            for ign in igns:
                tagi = 'ignoreH' if ign else 'keepH'
                for lst in lists:
                    multi = case['k'] == 'alignguess'
                    guess = multi and lst is None
                    cdesc = dict(case, ign=ign, empty=int(lst is not None)) if multi else \
                        dict(case, restr=[list(p) for p in lst], ign=ign)
                    cdesc.pop('igns', None)
                    del rec[:]
                    ali = Alignment(start, end)
                    holder['ali'] = ali
                    if guess:
                        try:
                            user = [tuple(p) for p in guess_protein_restrains(ali.start, ali.end)]
                        except Exception as exc:      # guesser faults belong to part (c)
                            R.case(cdesc, nontrivial=False, outcome='guess-raised:' + type(exc).__name__,
                                   cls='alignguess/guess-raised')
                            continue
                    else:
                        user = lst
                    sigbase = f"align{'-guessed' if guess else ('-multiresidue-explicit-empty-list' if multi else '')}/{role}/{tagi}"
                    cls = (f"alignguess/{ns}x{ne}/{tagi}" if guess
                           else (f'alignguess-explicit-empty/{ns}x{ne}/{tagi}' if multi
                                 else f'align/{ns}x{ne}/len{len(lst)}/{tagi}'))
                    # the user's own list object is handed to TWO consecutive runs: the second run
                    # must designate the same atoms as the first (the list must not be consumed)
                    user_obj = None if guess else list(lst)
                    sig = None
                    for run in (1, 2):
                        del rec[:]
                        sfx = '' if run == 1 else '/second-run-with-same-list'
                        try:
                            ali.align_molecules(user_obj, None, bool(ign))
                        except Exception as exc:
                            R.case(cdesc, nontrivial=bool(user), outcome='raised', cls=cls)
                            R.violation(f'{sigbase}/raised{sfx}', cdesc, f'{type(exc).__name__}: {exc}')
                            sig = 'raised'
                            break
                        if len(rec) != 1:
                            R.case(cdesc, nontrivial=bool(user), outcome=f'optimiser-calls-{len(rec)}', cls=cls)
                            R.violation(f'{sigbase}/optimiser-not-called-once{sfx}', cdesc, f'{len(rec)} calls')
                            sig = 'calls'
                            break
                        sig, det, kept = self._judge(rec[0], user, ign, names_s, names_e, rule_start_fixed, R,
                                                     ordered=not guess)
                        if run == 1:
                            R.case(cdesc, nontrivial=bool(user), cls=cls,
                                   outcome=('defect' if sig else f'kept{kept}of{min(len(user), 9)}'))
                        if sig:
                            R.violation(f'{sigbase}/{sig}{sfx}', cdesc, det)
                            break

    @staticmethod
    def _judge(record, user, ign, names_s, names_e, rule_start_fixed, R, ordered=True):
        mol1, mol2, got, spos, epos = record
        where = {}
        for tag, arr in (('s', spos), ('e', epos)):
            for idx, row in enumerate(arr):
                key = tuple(float(x) for x in row)
                assert key not in where, 'harness: coordinates not distinct'
                where[key] = (tag, idx)

        def locate(arr):
            out = []
            for row in arr:
                out.append(where.get(tuple(float(x) for x in row)))
            return out
        loc1, loc2 = locate(mol1), locate(mol2)
        if None in loc1 or None in loc2:
            return 'optimiser-coordinates-not-the-molecules', 'a coordinate row is no atom of either molecule', 0
        sides1 = {t for t, _ in loc1}
        sides2 = {t for t, _ in loc2}
        if len(sides1) != 1 or len(sides2) != 1 or sides1 == sides2:
            return 'optimiser-coordinates-mixed', f'fixed rows from {sides1}, mobile rows from {sides2}', 0
        fixed_side = sides1.pop()
        if (fixed_side == 's') != rule_start_fixed:
            R.add('info_fixed_molecule_not_the_larger_or_start_on_tie', 1)
        present_fixed = {idx for _, idx in loc1}
        names_fixed = names_s if fixed_side == 's' else names_e
        n_h = sum(1 for nm in names_fixed if nm.startswith('H'))
        if ign and n_h and len(present_fixed) == len(names_fixed):
            R.add('info_ignore_on_but_no_hydrogen_filtered', 1)
        designated = []
        for p in got:
            try:
                a, b = p
                ok = (a == int(a) and b == int(b) and 0 <= a < len(mol1) and 0 <= b < len(mol2))
            except (TypeError, ValueError):
                ok = False
            if not ok:
                return 'pair-index-out-of-range', f'received {got!r} for arrays of {len(mol1)}/{len(mol2)} rows', 0
            (ta, ia), (tb, ib) = loc1[int(a)], loc2[int(b)]
            designated.append((ia, ib) if ta == 's' else (ib, ia))
        expected = []
        for i, j in user:
            f = i if fixed_side == 's' else j
            if ign and names_fixed[f].startswith('H') and f not in present_fixed:
                continue
            expected.append((i, j))
        if not ordered:
            designated, expected = sorted(designated), sorted(expected)
        if designated == expected:
            return None, None, len(designated)
        if sorted(designated) == sorted(expected):
            kind = 'order-changed'
        elif len(designated) != len(expected):
            kind = 'wrong-pairs-dropped-or-kept'
        else:
            kind = 'wrong-atoms-designated'
        return kind, (f'user pairs (start,end) {user!r}; expected to reach the optimiser {expected!r}; '
                      f'atoms designated by the received list {got!r}: {designated!r}'), len(designated)

    def _corner(self, case, R, seed):
        """Informational only: which odd hydrogen-like names are filtered."""
        import gaddlemaps._alignment as al
        from gaddlemaps import Alignment
        names = ['C1'] + list(CORNER_NAMES)
        atoms = [(nm, 'MOL', 1) for nm in names]
        try:
            big = molecule('MOL', atoms, en.chain(4), generic_points(4, seed, tag=104))
            small = res_molecule('MOL', (2,), seed, 202)
        except Exception:
            R.case(case, nontrivial=False, outcome='corner-names-not-parsed', cls='corner')
            return
        rec = []

        def recorder(mol1, mol2, *rest):
            rec.append(len(mol1))
            return mol2
        for which, (s, e) in (('end-fixed', (small, big)), ('start-fixed', (big, small))):
            del rec[:]
            try:
                with patched(al, 'minimize_molecules', recorder):
                    ali = Alignment(s, e)
                    ali.align_molecules([], None, True)
                n = rec[0] if rec else -1
            except Exception:
                n = -1
            R.add(f'info_corner_names_rows_kept_of_4_{which}', max(n, 0))
            R.case(dict(case, which=which), nontrivial=False, outcome=f'corner-kept-{n}', cls='corner')
        for nm in CORNER_NAMES:
            try:
                el = [a.element for a in big if a.name == nm][0]
            except Exception:
                el = '?'
            R.add(f'info_corner_{nm}_treated_as_hydrogen', int(el == 'H'))

    # ------------------------------------------------------------------ (b)
    def _split(self, case, R, seed):
        from gaddlemaps import guess_residue_restrains
        from gaddlemaps.components import AtomGro, Residue
        n1, n2, o1, o2 = case['n1'], case['n2'], case['o1'], case['o2']

        def residue(n, resid, resname):
            return Residue([AtomGro([resid, resname, f'C{i + 1}', i + 1, 0.1 * i, 0.05 * resid, 0.0])
                            for i in range(n)])
        r1 = cached(('res', n1, 1), lambda: residue(n1, 1, 'RA'))
        r2 = cached(('res', n2, 2), lambda: residue(n2, 2, 'RB'))
        cls = 'split/' + ('equal' if n1 == n2 else 'first-longer' if n1 > n2 else 'second-longer')
        try:
            if o1 == 0 and o2 == 0:
                got = guess_residue_restrains(r1, r2)
            else:
                got = guess_residue_restrains(r1, r2, o1, o2)
        except Exception as exc:
            R.case(case, nontrivial=True, outcome='raised', cls=cls)
            R.violation('splitter/raised', case, f'{type(exc).__name__}: {exc}')
            return
        defect = relation_defect(got, n1, n2, o1, o2)
        R.case(case, nontrivial=True, outcome=defect or 'ok', cls=cls)
        if defect:
            R.violation(f'splitter/{defect}', case, f'returned {list(got)[:60]!r}')

    # ------------------------------------------------------------------ (c)
    def _protein(self, case, R, seed):
        from gaddlemaps import guess_protein_restrains
        if 'same' not in case:
            for same in (0, 1):
                self._protein(dict(case, same=same), R, seed)
            return
        same = bool(case['same'])
        v1, v2 = tuple(case['v1']), tuple(case['v2'])
        m1 = cached(('prot', 1, v1, seed, same), lambda: res_molecule('PRO', v1, seed, 300 + len(v1), same=same))
        m2 = cached(('prot', 2, v2, seed, same), lambda: res_molecule('PRO', v2, seed, 400 + len(v2), same=same))
        assert [len(r) for r in m1.residues] == list(v1) and [len(r) for r in m2.residues] == list(v2), \
            'harness: residues not recognised as built'
        try:
            got = guess_protein_restrains(m1, m2)
            err = None
        except Exception as exc:
            got, err = None, exc
        if len(v1) != len(v2):
            R.case(case, nontrivial=True, outcome='refused' if err else 'not-refused', cls='protein/unequal-residue-count')
            if err is None:
                R.violation('protein/unequal-residue-count-not-refused', case, f'returned {list(got)[:40]!r}')
            return
        cls = f'protein/{len(v1)}-residues' + ('/one-residue-name' if same else '')
        if err is not None:
            if len(v1) == 1:
                R.add('info_single_residue_guess_refused', 1)
                R.case(case, nontrivial=False, outcome='single-residue-refused', cls=cls)
                return
            R.case(case, nontrivial=True, outcome='raised', cls=cls)
            R.violation('protein/equal-residue-count-refused', case, f'{type(err).__name__}: {err}')
            return
        pos1 = [p for p, ln in enumerate(v1) for _ in range(ln)]
        pos2 = [p for p, ln in enumerate(v2) for _ in range(ln)]
        defect = relation_defect(got, sum(v1), sum(v2), 0, 0, pos1, pos2)
        R.case(case, nontrivial=True, outcome=defect or 'ok', cls=cls)
        if defect:
            R.violation(f'protein/{defect}', case, f'returned {list(got)[:60]!r}')

    # ------------------------------------------------------------------ (d)
    @staticmethod
    def _build_manager(ns, seed):
        from gaddlemaps import Manager
        from gaddlemaps.components import System
        order = [0, 1, 0] if ns == 2 else [0, 1, 2, 0, 1]
        spec_atoms = {s: [(f'C{i + 1}', 'S' + 'ABC'[s], 1) for i in range(SPECIES[s][1])] for s in range(ns)}
        total = sum(SPECIES[s][1] for s in order)
        pts = generic_points(total, seed, tag=500 + ns)
        recs, aid = [], 1
        for rid, s in enumerate(order, start=1):
            for an, rn, _ in spec_atoms[s]:
                recs.append((rid, rn, an, aid, pts[aid - 1]))
                aid += 1
        gro = MemFile(gro_text(recs, box=(9.0, 9.0, 9.0)), 'system.gro')
        itps = [MemFile(itp_text(SPECIES[s][0], spec_atoms[s], en.chain(SPECIES[s][1])), SPECIES[s][0] + '.itp')
                for s in range(ns)]
        man = Manager(System(gro, *itps))
        ends = []
        for s in range(ns):
            name, _, n1 = SPECIES[s]
            atoms = [(f'C{i + 1}', 'E' + 'ABC'[s], 1) for i in range(n1)]
            ends.append(molecule(name, atoms, en.chain(n1), generic_points(n1, seed, tag=520 + s)))
        man.add_end_molecules(*ends)
        assert sorted(man.complete_correspondence) == sorted(SPECIES[s][0] for s in range(ns)), 'harness: species'
        for s in range(ns):
            ali = man.molecule_correspondence[SPECIES[s][0]]
            assert len(ali.start) == SPECIES[s][1] and len(ali.end) == SPECIES[s][2], 'harness: sizes'
        return man

    def _manager(self, case, R, seed):
        from gaddlemaps import Alignment
        ns = case['ns']
        man = cached(('manager', ns, seed), lambda: self._build_manager(ns, seed))
        opt, unk, rev, emp = case['opt'], case['unk'], case['rev'], case['emp']
        species = list(range(ns))
        keyorder = species[::-1] if rev else species
        dicts = [{}, {}, {}]
        bad = None
        for kind in range(3):
            if unk[kind] and rev:           # unknown name first or last in the dictionary
                dicts[kind][UNKNOWN] = ([(0, 0)], (0,), True)[kind]
            for s in keyorder:
                o = opt[s][kind]
                if o == 0:
                    continue
                name = SPECIES[s][0]
                if kind == 0:
                    dicts[0][name] = restr_value(s, o)
                elif kind == 1:
                    dicts[1][name] = D_VALUES[o]
                else:
                    dicts[2][name] = G_VALUES[o]
            if unk[kind] and not rev:
                dicts[kind][UNKNOWN] = ([(0, 0)], (0,), True)[kind]
        for kind, table in ((0, R_BAD), (1, D_BAD), (2, G_BAD)):
            for s in species:
                if bad is None and opt[s][kind] in table:
                    bad = table[opt[s][kind]]
        if bad is None and any(unk):
            bad = 'unknown-name'
        args = [(d if (d or emp) else None) for d in dicts]
        calls = []

        def recorder(self_, restrictions=None, deformation_types=None, ignore_hydrogens=True, *a, **kw):
            calls.append((getattr(self_.start, 'name', None), restrictions, deformation_types, ignore_hydrogens))

        err = None
        with patched(Alignment, 'align_molecules', recorder), quiet_stdout():
            try:
                man.align_molecules(args[0], args[1], args[2])
            except Exception as exc:
                err = exc
        nondefault = any(o for s in species for o in opt[s]) or any(unk)
        cls = f'manager/{ns}sp/' + ('invalid:' + bad if bad else 'valid')
        sigbase = f'manager/{ns}sp'
        if bad:
            if err is None:
                R.case(case, nontrivial=True, outcome='invalid-accepted', cls=cls)
                R.violation(f'{sigbase}/not-rejected/{bad}', case,
                            f'no exception; alignment calls {calls!r}'[:1500])
            elif calls:
                R.case(case, nontrivial=True, outcome='rejected-late', cls=cls)
                R.violation(f'{sigbase}/alignment-ran-before-rejection/{bad}', case,
                            f'{type(err).__name__} after {len(calls)} alignment call(s): {calls!r}'[:1500])
            else:
                R.case(case, nontrivial=True, outcome='rejected:' + type(err).__name__, cls=cls)
            return
        if err is not None:
            R.case(case, nontrivial=nondefault, outcome='valid-raised', cls=cls)
            R.violation(f'{sigbase}/valid-options-raised', case, f'{type(err).__name__}: {err}')
            return
        sig = det = None
        for s in species:
            name = SPECIES[s][0]
            mine = [c for c in calls if c[0] == name]
            r, d, g = opt[s]
            if not mine:
                if r or d or g:
                    sig, det = 'species-with-options-not-aligned', f'{name}: calls {calls!r}'
                    break
                R.add('info_species_without_options_not_aligned', 1)
                continue
            if len(mine) != 1:
                R.add('info_species_aligned_more_than_once', 1)
            for _, gr, gd, gi in mine:
                if r in (0, 1):
                    okr = gr is None or (hasattr(gr, '__len__') and len(gr) == 0)
                else:
                    want = restr_value(s, r)
                    try:
                        okr = gr is not None and [tuple(p) for p in gr] == want
                    except TypeError:
                        okr = False
                if not okr:
                    sig, det = 'wrong-restrictions', f'{name}: given {dicts[0].get(name, "absent")!r} received {gr!r}'
                    break
                wantd = D_VALUES[d] if d else None
                okd = (gd is None) if wantd is None else (gd is not None and hasattr(gd, '__len__')
                                                          and tuple(gd) == wantd)
                if not okd:
                    sig, det = 'wrong-deformation', f'{name}: given {dicts[1].get(name, "absent")!r} received {gd!r}'
                    break
                wantg = G_VALUES[g] if g else True
                if not (isinstance(gi, (bool, np.bool_)) and bool(gi) == wantg):
                    sig, det = 'wrong-ignore-hydrogens', f'{name}: given {dicts[2].get(name, "absent")!r} received {gi!r}'
                    break
            if sig:
                break
        stray = [c for c in calls if c[0] not in [SPECIES[s][0] for s in species]]
        if sig is None and stray:
            sig, det = 'alignment-of-unknown-species', repr(stray)
        R.case(case, nontrivial=nondefault, outcome=sig or f'routed-{len(calls)}', cls=cls)
        if sig:
            R.violation(f'{sigbase}/{sig}', case, det + f' | all calls {calls!r}'[:1200])
            return
        # -- the documented pre-parsed path: restraints validated once with parse_restrictions(), then
        #    handed over with parse_restrictions=False, in another key order or for a subset of species
        try:
            parsed = man.parse_restrictions(args[0])
        except Exception as exc:
            R.violation(f'{sigbase}/preparsed/parse_restrictions-raised', case, repr(exc))
            return
        names = list(parsed)
        variants = [names[::-1]] + [[n] for n in names] + ([names[1:] + names[:1]] if len(names) > 2 else [])
        for order in variants:
            sub = {n: parsed[n] for n in order}
            del calls[:]
            with patched(Alignment, 'align_molecules', recorder), quiet_stdout():
                try:
                    man.align_molecules(sub, args[1], args[2], parse_restrictions=False)
                except Exception as exc:
                    R.violation(f'{sigbase}/preparsed/valid-options-raised', case, f'{order}: {exc!r}')
                    return
            R.add('manager_preparsed_variants', 1)
            for cname, gr, gd, gi in calls:
                s = [x for x in species if SPECIES[x][0] == cname]
                if not s or cname not in order:
                    R.violation(f'{sigbase}/preparsed/species-not-requested-was-aligned', case, f'{order}: {calls!r}'[:800])
                    return
                r, d, g = opt[s[0]]
                wantd = D_VALUES[d] if d else None
                wantg = G_VALUES[g] if g else True
                okd = (gd is None) if wantd is None else (gd is not None and hasattr(gd, '__len__') and tuple(gd) == wantd)
                okg = isinstance(gi, (bool, np.bool_)) and bool(gi) == wantg
                okr = (gr is None and parsed[cname] is None) or (gr is not None and parsed[cname] is not None and
                                                                 [tuple(q) for q in gr] == [tuple(q) for q in parsed[cname]])
                if not (okd and okg and okr):
                    what = 'deformation' if not okd else ('ignore-hydrogens' if not okg else 'restrictions')
                    R.violation(f'{sigbase}/preparsed/wrong-{what}', case,
                                f'key order {order}: species {cname} received {(gr, gd, gi)!r}'[:800])
                    return
            if sorted(c[0] for c in calls) != sorted(order):
                R.violation(f'{sigbase}/preparsed/requested-species-not-aligned-once', case, f'{order}: {calls!r}'[:800])
                return


CHECK = C10()
