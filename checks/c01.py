"""C01 - exchange map reproduces the aligned target (anchor-and-scale law).

Enumerated completely: every labelled bond graph with a vertex of degree >= 2 on
3, 4 (thorough: 5) atoms x 8 geometry classes (generic, cube-corner right angles,
exactly collinear along x, y, z, (1,1,0), (1,1,1), (1,2,3)) x target sizes x 3
placements x 5 scale factors.  Oracle: the brute-force reference ``ref_map``.
"""
import os

import numpy as np

from mcx.core import Check
from mcx.ref import exmap as xm
from mcx.seams import owned_random

SCALES = (1.0, 0.5, 0.25, 1.5, 2.0, 0.99999)       # the last: within any "close to one" tolerance, not one
PLACES = ('near', 'between', 'far', 'neartie', 'onanchor', 'veryfar')
TOL = 1e-9


class C01(Check):
    pid = 'C01'
    level = 'exploration'
    rule = ('case = (bond graph, geometry class, target size, placement class, scale factor); all labelled '
            'graphs with a vertex of degree >= 2; distinct by descriptor; non-trivial = the map was built and '
            'applied and every output coordinate was compared with the brute-force anchor-and-scale reference')
    technique = ('exhaustive enumeration of labelled bond graphs x geometry classes x targets x placements x '
                 'scale factors on the real ExchangeMap, compared with a brute-force reference map')
    level_text = ('every labelled graph on 3..4 (quick) / 3..5 (thorough) atoms with an anchor, in 11 geometry classes '
                  '(incl. exactly collinear along 6 directions, nearly collinear with sin ~ 1e-9 and 3e-10, axis-aligned right angles, and a generic geometry shrunk to anchor separations of 0.01-0.1 nm), targets of 1-3 '
                  '(thorough also 6, and 40 on references up to 4 atoms) atoms in 3 tie-free placements and one near-tie placement (the two nearest anchors 1e-8 nm apart in distance), 6 scale factors in (0, 2], all executed on '
                  'the real code; a coverage statement over this finite product, not a proof for all reals')
    level_note = ('trusted: numpy arithmetic, the graph enumerator (self-tested against closed-form counts), the '
                  'in-memory builders (real parsers), the brute-force reference ref_map; not covered: near-collinear geometries other than the two stated classes, ties between anchors, references above 5 atoms')
    assumptions = ['generic coordinates from a conditioned table selected by VERIF_SEED (sin >= 0.25, separation >= 0.08 nm)',
                   'degenerate classes use dyadic coordinates so collinearity is exact in floating point',
                   'target points have a unique nearest anchor with margin >= 1e-3 nm (enforced by the builder)',
                   'scale factors from the menu {0.25, 0.5, 0.99999, 1, 1.5, 2}']

    def units(self, tier, seed):
        nmax = 5 if tier == 'thorough' else 4
        sizes = {'n<=4': [1, 2, 3, 6, 40], 'n=5': [1, 2, 3, 6]} if tier == 'thorough' else [1, 2, 3]
        self.bounds = {'ref_atoms': [3, nmax], 'graphs': {n: len(xm.ref_graphs(n)) for n in range(3, nmax + 1)},
                       'geometry_classes': list(xm.GEO), 'target_sizes': sizes, 'placements': list(PLACES),
                       'scale_factors': list(SCALES), 'tolerance_nm': TOL, 'tie_margin_nm': xm.MARGIN}
        u = []
        for n in range(3, nmax + 1):
            mod = {3: 1, 4: 6, 5: 32}[n]
            for geo in xm.GEO:
                u += [{'n': n, 'geo': [geo], 'mod': mod, 'r': r} for r in range(mod)]
        # anchors that are NEARLY collinear, sin(angle) just above the library's 1e-10 fallback threshold
        # (neither generic nor exact: the frame must still be orthonormal to 1e-9).  Own signatures map/near_col_*.
        self.bounds['geometry_classes'] = list(xm.GEO) + list(xm.NEAR) + list(xm.SMALL)
        for n in range(3, nmax + 1):
            mod = {3: 1, 4: 2, 5: 16}[n]
            for geo in list(xm.NEAR) + list(xm.SMALL):
                u += [{'n': n, 'geo': [geo], 'mod': mod, 'r': r} for r in range(mod)]
        # the 5-atom chain bent into two exactly straight arms in generic directions (also in the quick tier)
        # (first in the list: executed by a worker process that has computed no frame yet)
        u.insert(0, {'n': 5, 'geo': ['arms'], 'mod': 1, 'r': 0, 'chain': 1})
        self.bounds['topology_edit'] = ('every graph on 3..4 atoms x every one of its edges added LAST, after a first map '
                                        'was built and used on the graph without it; generic geometry')
        u += [{'n': n, 'geo': ['generic'], 'mod': m_, 'r': r, 'edit': 1} for n, m_ in ((3, 1), (4, 6)) for r in range(m_)]
        return u

    def cases(self, unit, tier, seed):
        n = unit['n']
        if unit.get('edit'):
            for i, edges in enumerate(xm.ref_graphs(n)):
                if i % unit['mod'] != unit['r']:
                    continue
                for e in edges:
                    for place in ('near', 'between'):
                        yield {'n': n, 'edges': edges, 'geo': 'generic', 'm': 3, 'place': place, 'add': list(e)}
            return
        # thorough: 6-atom target everywhere, the 40-atom target on references up to 4 atoms
        sizes = [1, 2, 3] + ([6] if tier == 'thorough' else []) + ([40] if tier == 'thorough' and n <= 4 else [])
        graphs = xm.ref_graphs(n)
        if unit.get('chain'):
            graphs = [[[i, i + 1] for i in range(n - 1)]]
        for i, edges in enumerate(graphs):
            if i % unit['mod'] != unit['r']:
                continue
            for geo in unit['geo']:
                for m in sizes:
                    for place in PLACES:
                        yield {'n': n, 'edges': edges, 'geo': geo, 'm': m, 'place': place}
                    if m == 3:        # the same target split into two residues (atoms keep their molecule-wide order)
                        for place in ('near', 'between'):
                            yield {'n': n, 'edges': edges, 'geo': geo, 'm': m, 'place': place, 'tres': 2}
                    if m == 3 and geo in ('generic', 'col_z'):
                        # every second reference atom is a hydrogen BY NAME (H2, H4): an anchor like any other
                        for place in ('near', 'between'):
                            yield {'n': n, 'edges': edges, 'geo': geo, 'm': m, 'place': place, 'hnames': 1}

    # ------------------------------------------------------------------
    def check_case(self, case, R, seed):
        # references of >= 3 atoms draw nothing; own np.random anyway so that a change that starts
        # drawing stays deterministic (and replayable)
        with owned_random(lambda kind, a, k: np.array([0.31, 0.77, 0.52])):
            self._run(case, R, seed)

    _edit_count = [0]

    def _edited_ref(self, case, seed):
        """A fresh reference with the ORIGINAL graph on which a map is built and used; then the bond case['add'] is
        added to its topology object.  The map built afterwards must see the new anchors."""
        from gaddlemaps import ExchangeMap
        from mcx.build import generic_points, molecule, simple_atoms
        n = case['n']
        base = [e for e in case['edges'] if sorted(e) != sorted(case['add'])]
        self._edit_count[0] += 1
        ref = molecule('REF', simple_atoms(n, 'E%04d' % (self._edit_count[0] % 10000), 'C'), [tuple(e) for e in base],
                       generic_points(n, 0, tag=1))
        ref.atoms_positions = xm.ref_positions(case['geo'], n, seed)
        t0 = xm.tgt_molecule(2)
        t0.atoms_positions = ref.atoms_positions[:2] + 0.03
        try:
            ExchangeMap(ref, t0, 0.5)(ref)
        except Exception:
            pass                      # the graph before the edit may have no anchor at all
        a, b = case['add']
        ref.molecule_top[a].connect(ref.molecule_top[b])
        return ref

    def _run(self, case, R, seed):
        from gaddlemaps import ExchangeMap
        n, edges, geo, m, place = case['n'], case['edges'], case['geo'], case['m'], case['place']
        anch = xm.anchors(n, edges)
        rpos = xm.ref_positions(geo, n, seed)
        tpos = xm.target_positions(rpos, anch, m, place, seed,
                                   margin=xm.MARGIN * xm.SMALL.get(geo, 1.0))
        ref = self._edited_ref(case, seed) if 'add' in case else xm.ref_molecule(n, edges, case.get('tres', 1), case.get('hnames', 0))
        ref.atoms_positions = rpos.copy()
        tgt = xm.tgt_molecule(m, case.get('tres', 1))
        tgt.atoms_positions = tpos.copy()
        cls = f'n{n}/{geo}/m{m}/{place}' + ('/two-residue-target' if case.get('tres') == 2 else '') + \
            ('/bond-added-after-a-first-map' if 'add' in case else '')
        for s in ([case['s']] if 's' in case else SCALES):
            cdesc = dict(case, s=s)
            assign, exp, marg = xm.ref_map(rpos, anch, tpos, s)
            assert marg >= xm.MARGIN * xm.SMALL.get(geo, 1.0) or len(anch) == 1 or (place == 'neartie' and marg > 1e-9)
            try:
                emap = ExchangeMap(ref, tgt, s)
                # "p is the atom's position AT CONSTRUCTION": the target object is moved before the first use
                tgt.atoms_positions = tpos[::-1] * 0.5 + np.array([3.0, 1.0, -2.0])
                out = emap(ref).atoms_positions
                tgt.atoms_positions = tpos.copy()
                eq = emap.equivalences
                # the law is about the construction configuration whenever the map is applied to it:
                # apply the map to another configuration in between, then to the construction object again
                other = ref.copy()
                other.atoms_positions = rpos[::-1] * 1.25 + np.array([1.0, -2.0, 3.0])
                emap(other)
                out_again = emap(ref).atoms_positions
            except Exception as ex:
                R.case(cdesc, nontrivial=False, outcome='exception', cls=cls)
                R.violation(f'map/{geo}/exception', cdesc, repr(ex))
                continue
            R.case(cdesc, nontrivial=True, cls=cls,
                   outcome=f'anchors={min(len(anch), 4)}/used={len(set(assign))}')
            if out.shape != exp.shape or not np.all(np.isfinite(out)):
                R.violation(f'map/{geo}/non-finite', cdesc, out.tolist())
                continue
            err = float(np.abs(out - exp).max())
            R.add('max_err_e18', int(min(err, 1.0) * 1e18))
            if err > TOL:
                k = int(np.argmax(np.abs(out - exp).max(axis=1)))
                wrong_anchor = [a for a in anch
                                if np.abs(out[k] - (rpos[a] + s * (tpos[k] - rpos[a]))).max() <= TOL]
                what = 'other-anchor' if wrong_anchor else 'anchor-scale-law'
                R.violation(f'map/{geo}/{what}', cdesc,
                            f'atom {k}: got {out[k].tolist()} want {exp[k].tolist()} (anchor {assign[k]}, err {err:.3e})')
            if out_again.shape != exp.shape or not np.all(np.isfinite(out_again)) or \
                    float(np.abs(out_again - exp).max()) > TOL:
                R.violation(f'map/{geo}/law-fails-after-mapping-another-configuration', cdesc,
                            f'second application to the construction reference: max |out - expected| = '
                            f'{float(np.abs(out_again - exp).max()):.3e}')
            if s == 1.0 and float(np.abs(out - tpos).max()) > TOL:
                R.violation(f'map/{geo}/s1-target-not-reproduced', cdesc,
                            f'max deviation {float(np.abs(out - tpos).max()):.3e}')
            want_eq = {}
            for k, a in enumerate(assign):
                want_eq.setdefault(a, []).append(k)
            got_eq = {int(a): sorted(int(x) for x in v) for a, v in eq.items()}
            if got_eq != want_eq:
                R.violation(f'map/{geo}/equivalences-not-nearest-anchor', cdesc, f'got {got_eq} want {want_eq}')


CHECK = C01()
