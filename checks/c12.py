"""C12 - SystemGro tiles the file into residues with stable random access.

Files: every sequence of residue kinds up to the length bound over {W(1), W(3), ION(1), AB(2)}
x numbering class x velocities, plus deterministic 400-residue files.  For every file
(1) tiling oracle against an independent fixed-width parse of the raw text;
(2) explicit-state BFS over access histories (event alphabet below) with the canonical key
    (file offset, _current_atom, progress of each live iterator): dedup skips only the
    EXPANSION of a key already expanded, every transition is executed and checked;
(3) one de Bruijn order-2 history (every ordered pair of events once, in a long context).
A state is its event history, replayed on a fresh SystemGro over a fresh in-memory file.
"""
import itertools

from mcx import enum as en
from mcx.build import MemFile, Scratch
from mcx.core import Check

KINDS = {'W1': ('W', ['OW']), 'W3': ('W', ['OW', 'HW1', 'HW2']),
         'ION': ('ION', ['NA']), 'AB': ('AB', ['A1', 'B1'])}
KORDER = ('W1', 'W3', 'ION', 'AB')
NUMBERINGS = ('seq', 'same', 'wrap', 'digit', 'const')
BOX3 = (5.0, 6.0, 7.0)
BOX9 = (5.0, 6.0, 7.0, 0.0, 0.0, 1.5, 0.0, 0.5, 2.5)     # v1x v2y v3z v1y v1z v2x v2z v3x v3y


# ---------------------------------------------------------------------------
# generator (writes text) and independent reference reader (reads text)
def big_kinds(name):
    if name == 'p2':
        return [('W1', 'AB')[j % 2] for j in range(400)]
    if name == 'p3':
        return [('W3', 'ION', 'W1')[j % 3] for j in range(400)]
    return ['W3'] * 300 + [('ION', 'AB', 'W1', 'W3')[j % 4] for j in range(100)]


def file_kinds(fd):
    return big_kinds(fd['big']) if 'big' in fd else fd['kinds']


def build_text(fd, seed):
    """fd: {'kinds'| 'big', 'num', 'vel', optional 'w'}.  Returns (text, sizes of the residues written)."""
    kinds = file_kinds(fd)
    num, vel = fd['num'], fd['vel']
    w = fd.get('w', 8)
    d = w - 5
    start = fd.get('start', 99998)
    lines, sizes = [], []
    aid = 0
    prev_name, rid = None, 0
    for j, k in enumerate(kinds):
        rn, anames = KINDS[k]
        if num == 'seq':
            rid = j + 1
        elif num == 'same':           # same number on adjacent residues of different names
            rid = 1 if j == 0 else (rid if rn != prev_name else rid + 1)
        elif num == 'wrap':
            rid = (start + j) % 100000
        elif num == 'const':          # one number everywhere: boundaries only where the name changes
            rid = 4
        else:                         # digit-leading names: 1 + "2X" next to 12 + "X"
            rid, rn = (1, '2' + rn) if j % 2 == 0 else (12, rn)
        if num == 'const' and sizes and KINDS[k][0] == prev_name:
            sizes[-1] += len(anames)
        else:
            sizes.append(len(anames))
        prev_name = KINDS[k][0]
        for an in anames:
            at = (start + aid) % 100000 if num == 'wrap' else (aid + 1) % 100000
            p = (0.011 * (aid % 800 + 1) + 0.1 * seed, 1.0 + 0.007 * (aid % 1000), 2.0 + 0.013 * ((aid * aid + seed) % 17))
            if aid % 3 == 0:
                # a value that FILLS its column (-1xx.xxx in %8.3f): no blank separates it from the previous number
                p = (p[0], -100.0 - p[1], p[2] if aid % 2 else -100.0 - p[2])
            s = f'{rid:5d}{rn:5s}{an:>5s}{at:5d}' + ''.join(f'{x:{w}.{d}f}' for x in p)
            if vel:
                v = (0.01 * (aid % 90 + 1), -0.02 * (aid % 40 + 1), 0.003 * ((aid + seed) % 7))
                if aid % 5 == 1:
                    v = (0.0, 0.0, 0.0)           # an atom at rest: a recorded velocity, not a missing one
                elif aid % 4 == 0:
                    v = (v[0], -10.0 + v[1], v[2])     # column-filling velocity (-1x.xxxx in %8.4f)
                s += ''.join(f'{x:{w}.{d + 1}f}' for x in v)
            lines.append(s)
            aid += 1
    box = BOX9 if num in ('wrap', 'digit') else BOX3
    title = 'c12 ' + (fd.get('big') or ','.join(kinds)) + ' ' + num
    if num == 'const':
        title = '   '                 # a title of blanks only
    text = '\n'.join([title, f'{aid:5d}'] + lines + [' '.join(f'{x:9.5f}' for x in box)]) + '\n'
    return text, sizes


def ref_parse(text):
    """Minimal fixed-width .gro reader (independent of the library)."""
    lines = text.split('\n')
    title = lines[0]
    n = int(lines[1])
    recs = []
    for ln in lines[2:2 + n]:
        body = ln[20:]
        nd = body.count('.')
        w = len(body) // nd
        vals = [float(body[i * w:(i + 1) * w]) for i in range(nd)]
        recs.append((int(ln[0:5]), ln[5:10].strip(), ln[10:15].strip(), int(ln[15:20]),
                     tuple(vals[:3]), tuple(vals[3:6]) if nd == 6 else None))
    b = [float(x) for x in lines[2 + n].split()] + [0.0] * 6
    box = ((b[0], b[3], b[4]), (b[5], b[1], b[6]), (b[7], b[8], b[2]))
    residues = []
    for r in recs:
        if residues and residues[-1][-1][:2] == r[:2]:
            residues[-1].append(r)
        else:
            residues.append([r])
    return title, n, recs, box, [tuple(x) for x in residues]


def norm_res(res):
    out = []
    for a in res:
        p, v = a.position, a.velocity
        out.append((a.resid, a.resname, a.name, a.atomid, (float(p[0]), float(p[1]), float(p[2])),
                    None if v is None else (float(v[0]), float(v[1]), float(v[2]))))
    return tuple(out)


# ---------------------------------------------------------------------------
# events
def alphabet(n, bfs):
    """Concrete event alphabet for a file of n residues, simplest first."""
    ev = []
    for k in (0, 1, n // 2, n - 1):
        if 0 <= k < n and ['i', k] not in ev:
            ev.append(['i', k])
    for k in (-1, -2, -n):
        if -n <= k < 0 and ['i', k] not in ev:
            ev.append(['i', k])
    ev += [['len'], ['nx', 0], ['nx', 1]]
    if bfs:
        ev.append(['it'])
    else:
        ev.append(['it', 0])
    ev += [['s', 1, 3, None], ['s', None, None, 2], ['s', None, None, -1], ['s', -2, None, None],
           ['s', n, None, None], ['s', 1, -1, None], ['s', -1, 0, -1], ['o', n], ['o', -n - 1], ['list']]
    return ev


def ev_class(e):
    if e[0] == 'i':
        return 'index' if e[1] >= 0 else 'negindex'
    return {'s': 'slice', 'o': 'out-of-range', 'it': 'iter', 'nx': 'next', 'len': 'len', 'list': 'list'}[e[0]]


class Session:
    """One SystemGro over a fresh in-memory file + the reference; applies events with the oracle."""

    def __init__(self, text, ref):
        from gaddlemaps.components import SystemGro
        self.s = SystemGro(MemFile(text, 'c12.gro'))
        self.ref = ref
        self.n = len(ref)
        self.its = [None, None]
        self.prog = [None, None]

    def key(self):
        try:
            g = self.s._open_fgro
            return (g._file.tell(), g._current_atom, self.prog[0], self.prog[1], self._hidden(self.s), self._hidden(g))
        except Exception:
            return None

    @staticmethod
    def _hidden(obj):
        """Fingerprint of everything else the object remembers (its instance attributes): two histories are only
        merged when this agrees too, so state introduced by a change to the library (a remembered generator, a
        memo table, a cached index) splits the states instead of being silently identified."""
        out = []
        for k, v in sorted(vars(obj).items()):
            if isinstance(v, (int, float, str, bool, type(None))):
                out.append((k, v))
            elif hasattr(v, 'gi_frame'):                       # a suspended generator: where it stands
                fr = v.gi_frame
                out.append((k, 'gen', None if fr is None else (fr.f_lasti, repr(sorted(
                    (a, b) for a, b in fr.f_locals.items() if isinstance(b, (int, str, bool, type(None))))))))
            elif isinstance(v, (list, tuple, dict, set)):
                r = repr(v)
                out.append((k, type(v).__name__, len(v), r if len(r) < 400 else hash(r)))
            else:
                out.append((k, type(v).__name__))
        return tuple(out)

    def free_slot(self):
        for j in (0, 1):
            if self.its[j] is None:
                return j
        return None

    def apply(self, e):
        """Apply one event.  Returns (violation class or None, detail, outcome label)."""
        s, ref, n = self.s, self.ref, self.n
        t = e[0]
        try:
            if t == 'i':
                got = norm_res(s[e[1]])
                if got != ref[e[1]]:
                    return 'wrong-residue', self._diff(got, ref[e[1]], e[1] % n), 'residue'
                return None, None, 'residue'
            if t == 'o':
                try:
                    s[e[1]]
                except Exception as exc:      # the statement does not name the exception type
                    return None, None, type(exc).__name__
                return 'out-of-range-accepted', f'[{e[1]}] of {n}', 'accepted'
            if t == 's':
                sl = slice(e[1], e[2], e[3])
                got = [norm_res(r) for r in s[sl]]
                want = ref[sl]
                if got != want:
                    if len(got) != len(want):
                        return 'wrong-slice-length', f'{len(got)} residues, expected {len(want)}', 'slice'
                    k = next(i for i in range(len(got)) if got[i] != want[i])
                    return 'wrong-residue', self._diff(got[k], want[k], range(n)[sl][k]), 'slice'
                return None, None, f'slice:{min(len(got), 3)}'
            if t == 'len':
                if len(s) != n:
                    return 'wrong-len', (len(s), n), 'len'
                return None, None, 'len'
            if t == 'list':
                got = [norm_res(r) for r in s]
                if got != ref:
                    if len(got) != n:
                        return 'wrong-number-of-residues', (len(got), n), 'list'
                    k = next(i for i in range(n) if got[i] != ref[i])
                    return 'wrong-residue', self._diff(got[k], ref[k], k), 'list'
                return None, None, 'list'
            if t == 'it':
                j = e[1] if len(e) > 1 else self.free_slot()
                self.its[j] = iter(s)
                self.prog[j] = 0
                return None, None, 'iter'
            if t == 'nx':
                j = e[1]
                if self.its[j] is None:       # only in de Bruijn histories: open, then advance
                    self.its[j] = iter(s)
                    self.prog[j] = 0
                k = self.prog[j]
                try:
                    got = norm_res(next(self.its[j]))
                except StopIteration:
                    self.its[j] = None
                    self.prog[j] = None
                    if k != n:
                        return 'iterator-stops-early', f'after {k} of {n} residues', 'StopIteration'
                    return None, None, 'StopIteration'
                if k >= n:
                    return 'iterator-yields-past-the-end', f'item {k} of {n}', 'residue'
                self.prog[j] = k + 1
                if got != ref[k]:
                    return 'wrong-residue', self._diff(got, ref[k], k), 'next'
                return None, None, 'next'
        except Exception as exc:
            return 'exception', f'{type(exc).__name__}: {exc}', 'exception'
        raise AssertionError(e)

    def _diff(self, got, want, k):
        return (f'expected residue {k} = {want[0][0]}{want[0][1]} atoms {[a[3] for a in want]}, '
                f'got {got[0][0]}{got[0][1]} atoms {[a[3] for a in got]}')


def enabled(sess, sigma):
    out = []
    for e in sigma:
        if e[0] == 'it':
            j = sess.free_slot()
            if j is not None:
                out.append(['it', j])
        elif e[0] == 'nx':
            if sess.its[e[1]] is not None:
                out.append(e)
        else:
            out.append(e)
    return out


def touches(e):
    return e[0] not in ('len', 'it')


class C12(Check):
    pid = 'C12'
    level = 'model_checking'
    rule = ('case = (file, access history); files = every residue-kind sequence up to the length bound x numbering '
            'class x velocities, plus three 400-residue files; histories = BFS over the event alphabet to the depth '
            'bound (a state is its history, expansion de-duplicated by (file offset, _current_atom, iterator '
            'progress, fingerprint of all other instance attributes of the view and its file object)) plus one de Bruijn order-2 history per file; every transition is executed on a fresh '
            'SystemGro and compared with the reference residue; distinct by (file, history); non-trivial = the '
            'history has at least two events that move the shared cursor')
    technique = ('explicit-state breadth-first search over access histories of the real SystemGro (history replay on '
                 'fresh in-memory files, canonical cursor/iterator key), de Bruijn order-2 event words, tiling oracle '
                 'against an independent fixed-width reader of the raw text')
    level_text = ('every file over 4 residue kinds (equal names with different sizes, digit-leading names with colliding '
                  'number+name concatenations, equal numbers on adjacent residues (of different and of equal names), wrapping '
                  'numbers, with/without '
                  'velocities) up to 3 (quick) / 5 (thorough) residues, and three 400-residue layouts, is loaded by the '
                  'real code; every access history over a 21-event alphabet (index, negative index, slices, two live '
                  'iterators, len, list, out-of-range) up to depth 4 (quick) / 5 (thorough; 4 on 5-residue files) modulo the cursor key, and every ordered pair '
                  'of events inside a long history, is executed and each result compared with the k-th reference '
                  'residue; on every small file additionally every index and a 10 x 10 x 6 slice cube in isolation; a coverage statement over that finite space')
    level_note = ('trusted: the minimal reference reader in this module (cross-checked against the generator\'s own record '
                  'list on every file), io.StringIO seek/tell. The dedup key is sound because every access path seeks '
                  'before reading and iterators keep only a progress counter; if a change breaks that, the transition '
                  'oracle still fires (dedup never skips a check). Not covered: histories longer than the depth bound '
                  'other than the de Bruijn words; files with malformed records (C14).')
    assumptions = ['coordinates/velocities: deterministic table, unique per atom within 800 atoms, shifted by VERIF_SEED',
                   'at most two live iterators; an exhausted iterator is dropped',
                   'an out-of-range index must raise (any exception type); it is in the alphabet to perturb the cursor']

    # ------------------------------------------------------------------
    def units(self, tier, seed):
        thorough = tier == 'thorough'
        lmax = 5 if thorough else 3
        depth = 5 if thorough else 4
        mod = 16 if thorough else 6
        self.bounds = {'file_residues_max': lmax, 'kinds': list(KORDER), 'numberings': list(NUMBERINGS),
                       'velocities': [False, True], 'bfs_depth': depth,
                       'bfs_depth_for_files_of_5_residues': 4, 'events': 21, 'live_iterators_max': 2,
                       'big_files': ['p2 (W1,AB)x200', 'p3 (W3,ION,W1)x133+1 width 10', 'block 300xW3 + 100 singles'],
                       'big_file_history': 'de Bruijn order 2 over 21 events (442 events) + BFS depth 2',
                       'de_bruijn_on_small_files': True}
        u = []
        for num in NUMBERINGS:
            for vel in (False, True):
                for r in range(mod):
                    u.append({'k': 'small', 'num': num, 'vel': vel, 'lmax': lmax, 'depth': depth, 'mod': mod, 'r': r})
        for big, num, w in (('p2', 'seq', 8), ('p3', 'wrap', 10), ('block', 'same', 8)):
            for vel in (False, True):
                u.append({'k': 'big', 'big': big, 'num': num, 'vel': vel, 'w': w})
        return u

    def cases(self, unit, tier, seed):
        if unit['k'] == 'big':
            fd = {'big': unit['big'], 'num': unit['num'], 'vel': unit['vel'], 'w': unit['w']}
            if unit['num'] == 'wrap':
                fd['start'] = 99800
            yield {'file': fd, 'depth': 2, 'db': True}
            return
        i = 0
        for ln in range(1, unit['lmax'] + 1):
            for kinds in itertools.product(KORDER, repeat=ln):
                i += 1
                if i % unit['mod'] == unit['r']:
                    yield {'file': {'kinds': list(kinds), 'num': unit['num'], 'vel': unit['vel']},
                           'depth': min(unit['depth'], 4) if ln >= 5 else unit['depth'], 'db': True}

    # ------------------------------------------------------------------
    def check_case(self, case, R, seed):
        fd = case['file']
        text, sizes = build_text(fd, seed)
        title, natoms, recs, box, ref = ref_parse(text)
        # harness self-check: the reference reader must see what the generator wrote
        if [len(r) for r in ref] != sizes or natoms != sum(sizes):
            raise AssertionError(f'reference reader disagrees with the generator: {[len(r) for r in ref]} vs {sizes}')
        fcls = f"{fd.get('big') or 'len' + str(len(fd['kinds']))}/{fd['num']}/{'vel' if fd['vel'] else 'novel'}"
        if 'hist' in case:
            self._replay(case, R, text, ref, fcls)
            return
        if not self._tiling(case, R, text, title, natoms, recs, box, ref, fcls):
            return
        self._bfs(case, R, text, ref, fcls)
        if case.get('db'):
            self._debruijn(case, R, text, ref, fcls)

    # ------------------------------------------------------------------
    def _tiling(self, case, R, text, title, natoms, recs, box, ref, fcls):
        import numpy as np
        from gaddlemaps.components import SystemGro
        desc = {'file': case['file'], 'tiling': True}
        sig = det = None
        try:
            s = SystemGro(MemFile(text, 'c12.gro'))
            got = [norm_res(r) for r in s]
            flat = [a for r in got for a in r]
            if flat != recs:
                k = next((i for i in range(min(len(flat), len(recs))) if flat[i] != recs[i]), None)
                sig, det = 'tiling/records-differ-from-file', (f'{len(flat)} atoms iterated, {len(recs)} in the file; '
                                                              f'first difference at atom {k}')
            elif [len(r) for r in got] != [len(r) for r in ref]:
                sig = 'tiling/boundary-not-where-number-or-name-changes'
                det = (f'residue sizes {[len(r) for r in got][:12]} expected {[len(r) for r in ref][:12]}; '
                       f'(number, name) per atom: {[a[:2] for a in recs][:12]}')
            elif len(s) != len(ref):
                sig, det = 'tiling/len-differs-from-file', (len(s), len(ref))
            elif s.n_atoms != natoms:
                sig, det = 'tiling/n_atoms-differs-from-file', (s.n_atoms, natoms)
            elif np.abs(np.asarray(s.box_matrix, dtype=float) - np.array(box)).max() > 1e-12:
                sig, det = 'tiling/box-differs-from-file', np.asarray(s.box_matrix).tolist()
            elif s.comment_line.rstrip('\n') != title:
                sig, det = 'tiling/title-differs-from-file', repr(s.comment_line)
            elif len(ref) <= 12:
                # random access in isolation: every index and the whole slice cube against list semantics
                n = len(ref)
                for k in range(-n, n):
                    if norm_res(s[k]) != ref[k]:
                        sig, det = 'tiling/index-differs-from-iteration', f'[{k}] of {n}'
                        break
                vals = []
                for v in (None, -n - 1, -2, -1, 0, 1, 2, n - 1, n, n + 1):
                    if v not in vals:
                        vals.append(v)
                for a in (vals if sig is None else ()):
                    for b in vals:
                        for c in (None, 1, 2, -1, -2, n):
                            if c == 0:
                                continue
                            R.add('isolated_slices', 1)
                            if [norm_res(r) for r in s[a:b:c]] != ref[a:b:c]:
                                sig, det = 'tiling/slice-differs-from-list-semantics', f'[{a}:{b}:{c}] of {n}'
                                break
                        if sig:
                            break
                    if sig:
                        break
        except Exception as exc:
            sig, det = 'tiling/exception', f'{type(exc).__name__}: {exc}'
        if sig is None and len(ref) <= 12:
            sig, det = self._real_file(text, title, natoms, recs, box, ref)
        R.case(desc, nontrivial=len(ref) >= 2, outcome='tiling', cls='tiling/' + fcls)
        R.traces += 1
        if sig:
            R.violation(sig, desc, det)
        return sig is None

    def _real_file(self, text, title, natoms, recs, box, ref):
        """The same records in a REAL file whose title holds multi-byte characters (UTF-8: bytes != characters in the
        header), opened by the caller in text mode: tiling, counts, title, box and every index."""
        import numpy as np
        from gaddlemaps.components import SystemGro
        title2 = 'Caja de simulaci\u00f3n de Jos\u00e9, 25 \u00b0C, 12 \u00c5 \u2013 ' + title
        try:
            with Scratch() as d:
                path = d + '/c12.gro'
                with open(path, 'w', encoding='utf-8', newline='\n') as fh:
                    fh.write(title2 + text[len(title):])
                fh = open(path, encoding='utf-8')
                try:
                    s = SystemGro(fh)
                    got = [norm_res(r) for r in s]
                    if [a for r in got for a in r] != recs or [len(r) for r in got] != [len(r) for r in ref]:
                        return 'tiling/real-file/records-differ-from-file', 'title with multi-byte characters'
                    if len(s) != len(ref) or s.n_atoms != natoms:
                        return 'tiling/real-file/counts-differ-from-file', (len(s), s.n_atoms)
                    if s.comment_line.rstrip('\n') != title2:
                        return 'tiling/real-file/title-differs-from-file', repr(s.comment_line)
                    if np.abs(np.asarray(s.box_matrix, dtype=float) - np.array(box)).max() > 1e-12:
                        return 'tiling/real-file/box-differs-from-file', np.asarray(s.box_matrix).tolist()
                    n = len(ref)
                    for k in list(range(n - 1, -n - 1, -1)):
                        if norm_res(s[k]) != ref[k]:
                            return 'tiling/real-file/index-differs-from-iteration', f'[{k}] of {n}'
                finally:
                    fh.close()
        except Exception as exc:
            return 'tiling/real-file/exception', f'{type(exc).__name__}: {exc}'
        return None, None

    # ------------------------------------------------------------------
    def _run(self, text, ref, hist, check_all):
        """Replay a history on a fresh object.  Returns (session, index of failing event, (cls, detail, outcome))."""
        sess = Session(text, ref)
        res = (None, None, 'empty')
        for i, e in enumerate(hist):
            res = sess.apply(e)
            if res[0] and (check_all or i == len(hist) - 1):
                return sess, i, res
        return sess, None, res

    def _bfs(self, case, R, text, ref, fcls):
        n = len(ref)
        sigma = alphabet(n, True)
        sess0 = Session(text, ref)
        seen = {sess0.key()}
        R.states += 1
        frontier = [[]]
        for d in range(case.get('depth', 0)):
            nxt = []
            for hist in frontier:
                base, _, _ = self._run(text, ref, hist, False)
                for e in enabled(base, sigma):
                    h2 = hist + [e]
                    sess, bad, res = self._run(text, ref, h2, False)
                    R.transitions += 1
                    R.traces += 1
                    desc = {'file': case['file'], 'hist': h2}
                    R.case(desc, nontrivial=sum(map(touches, h2)) >= 2, outcome=res[2], cls=f'bfs/{ev_class(e)}/{fcls}')
                    if bad is not None:
                        R.violation(f'history/{ev_class(e)}/{res[0]}', desc, res[1])
                        continue
                    key = sess.key()
                    if key is None or key not in seen:
                        seen.add(key)
                        R.states += 1
                        nxt.append(h2)
            frontier = nxt
            if not frontier:
                R.add('bfs_closed_before_depth_bound', 1)
                break
        R.add('max_states_per_file', len(seen))

    def _debruijn(self, case, R, text, ref, fcls):
        n = len(ref)
        sigma = alphabet(n, False)
        word = [sigma[i] for i in en.de_bruijn_linear(len(sigma), 2)]
        sess = Session(text, ref)
        R.traces += 1
        for i, e in enumerate(word):
            res = sess.apply(e)
            R.transitions += 1
            if res[0]:
                desc = {'file': case['file'], 'hist': word[:i + 1], 'db': True}
                R.case(desc, nontrivial=True, outcome=res[2], cls=f'debruijn/{fcls}')
                R.violation(f'history/{ev_class(e)}/{res[0]}', desc, res[1])
                return
        R.case({'file': case['file'], 'db': True}, nontrivial=True, outcome=f'debruijn:{len(word)} events',
               cls=f'debruijn/{fcls}', n=len(word))

    def _replay(self, case, R, text, ref, fcls):
        hist = case['hist']
        sess, bad, res = self._run(text, ref, hist, True)
        R.transitions += len(hist)
        R.traces += 1
        R.case({'file': case['file'], 'hist': hist}, nontrivial=True, outcome=res[2], cls='replay/' + fcls)
        if bad is not None:
            R.violation(f'history/{ev_class(hist[bad])}/{res[0]}', case, res[1])


CHECK = C12()
