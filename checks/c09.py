"""C09 - Monte-Carlo search: consistent energies, Metropolis rule, exact stop.

Stateless exploration of the real _minimize_molecules under an owned random stream:
every draw is a choice point; all choice vectors within (horizon H, deviation bound D)
are executed.  A reference model of the loop (held, E, E_min, counter) written from the
statement is stepped along the observed event sequence of every execution; the events
are observed by wrapping the module-level names the loop resolves at call time.
"""
import itertools

import numpy as np

from mcx.core import Check
from mcx.explore import explore, roots, Ctx, Horizon
from mcx.ref.mc import McScript, chi2_ref, same_shape
from mcx.seams import owned_random, patched, quiet_stdout

PAIRS = {
    # name: (fixed, mobile, mobile edges)
    'p1x1_coincident': ([[0.0, 0.0, 0.0]], [[0.0, 0.0, 0.0]], []),
    'p1x1_apart': ([[0.0, 0.0, 0.0]], [[0.21, -0.13, 0.08]], []),
    # 30.3 default translation steps (0.3 * TRANS[0] each) away: thirty consecutive new lowest measures before the first
    # step without one - the total number of steps is many times the budget
    'p1x1_far': ([[0.0, 0.0, 0.0]], [[-2.727, 1.818, -0.909]], []),
    'p3x2': ([[0.0, 0.0, 0.0], [0.15, 0.02, -0.01], [0.29, -0.05, 0.07]],
             [[0.05, 0.11, 0.0], [0.19, 0.13, 0.04]], [(0, 1)]),
    'p2x3': ([[0.0, 0.0, 0.0], [0.31, 0.02, -0.04]],
             [[-0.03, 0.09, 0.02], [0.12, 0.14, -0.03], [0.27, 0.06, 0.05]], [(0, 1), (1, 2)]),
    'p4x3': ([[0.0, 0.0, 0.0], [0.14, 0.03, 0.01], [0.27, -0.04, 0.06], [0.41, 0.02, -0.02]],
             [[0.02, 0.12, -0.02], [0.2, 0.1, 0.03], [0.37, 0.13, 0.0]], [(0, 1), (1, 2)]),
    'p5x4star': ([[0.0, 0.0, 0.0], [0.14, 0.03, 0.01], [0.27, -0.04, 0.06], [0.41, 0.02, -0.02], [0.2, 0.2, 0.1]],
                 [[0.2, 0.1, 0.03], [0.02, 0.12, -0.02], [0.37, 0.13, 0.0], [0.22, 0.27, 0.11]],
                 [(0, 1), (0, 2), (0, 3)]),
    # mobile molecule with a ring that carries a side chain (4-ring 0-1-2-3 + tail 2-4-5): single-atom moves keep the
    # bonds of the traversal tree exact (the ring-closing bond may stretch)
    'p3x6ringtail': ([[0.0, 0.0, 0.0], [0.2, 0.05, -0.03], [0.4, -0.04, 0.06]],
                     [[0.0, 0.1, 0.0], [0.14, 0.13, 0.02], [0.15, 0.27, -0.01], [0.01, 0.25, 0.03],
                      [0.28, 0.36, 0.04], [0.41, 0.33, -0.05]],
                     [(0, 1), (1, 2), (2, 3), (0, 3), (2, 4), (4, 5)]),
}


def restraint_sets(n1, n2):
    return {'none': [], 'one': [(0, n2 - 1)], 'all_fixed': [(i, i % n2) for i in range(n1)],
            'dup': [(0, 0), (0, 0)]}


def bonds_info(mobile, edges):
    info = {}
    for a, b in edges:
        d = float(np.linalg.norm(np.array(mobile[a]) - np.array(mobile[b])))
        info.setdefault(a, []).append((b, d))
        info.setdefault(b, []).append((a, d))
    return info


class Run:
    """One execution of the real search with everything observed."""

    def __init__(self, cfg, ctx, horizon, deviate_at=None, start=None):
        import gaddlemaps._backend as be
        self.cfg = cfg
        fixed, mobile, edges = PAIRS[cfg['pair']]
        self.fixed = np.array(fixed, float)
        self.mobile0 = np.array(mobile if start is None else start, float)
        self.edges = edges
        self.info = bonds_info(np.array(mobile, float), edges)
        if cfg.get('pre'):
            # call history on ONE bond table object: a first search uses it, it is then edited in place (all
            # lengths doubled, as when switching units) and the explored search runs on the doubled system
            pre = McScript(Ctx([]), 4, [])
            acc0 = be.accept_metropolis

            def pre_acc(e0, e1, *a, **k):
                pre.pending = (e0, e1)
                return acc0(e0, e1, *a, **k)
            with owned_random(pre), patched(be, 'accept_metropolis', pre_acc), quiet_stdout():
                try:
                    be.minimize_molecules(self.fixed, self.mobile0, self.mobile0.mean(axis=0), 0.5, 2, [],
                                          self.info, 0.3, (2,))
                except Horizon:
                    pass
            for k in list(self.info):
                self.info[k] = [(j, ln * 2.0) for j, ln in self.info[k]]
            self.fixed = self.fixed * 2.0
            self.mobile0 = self.mobile0 * 2.0
        self.restr = restraint_sets(len(fixed), len(mobile))[cfg['restr']]
        self.kinds = tuple(cfg['kinds'])
        self.n = cfg['n']
        self.events = []
        events = self.events
        script = McScript(ctx, horizon, events, deviate_at)
        real_chi2, real_acc, real_move = be.Chi2Calculator, be.accept_metropolis, be.move_mol_atom

        class RecChi2:
            def __init__(s, m1, m2, restr=None):
                s._r = real_chi2(m1, m2, restr)

            def __call__(s, m2):
                v = s._r(m2)
                events.append(('eval', m2, np.array(m2, float), v))
                return v

        def rec_acc(e0, e1, *a, **k):
            script.pending = (e0, e1)
            d = real_acc(e0, e1, *a, **k)
            events.append(('accept', e0, e1, bool(d), len(ctx.trace)))
            return d

        def rec_move(pos, info, *a, **k):
            out = real_move(pos, info, *a, **k)
            events.append(('move', pos, out))
            return out

        f0, m0 = self.fixed.copy(), self.mobile0.copy()
        self.cut = False
        self.out = None
        # the centre handed to the search: for a one-bead mobile molecule the bead itself (a view of the caller's array),
        # otherwise a separately computed centroid; either way the caller's arrays are the caller's
        com = self.mobile0[0] if len(self.mobile0) == 1 else self.mobile0.mean(axis=0)
        com0 = np.array(com, float).copy()
        with owned_random(script), patched(be, 'Chi2Calculator', RecChi2), \
                patched(be, 'accept_metropolis', rec_acc), patched(be, 'move_mol_atom', rec_move), \
                quiet_stdout():
            try:
                self.out = be.minimize_molecules(self.fixed, self.mobile0, com, 0.5, self.n,
                                                 list(self.restr), self.info, 0.3, self.kinds)
            except Horizon:
                self.cut = True
        self.inputs_intact = np.array_equal(f0, self.fixed) and np.array_equal(m0, self.mobile0) and \
            np.array_equal(com0, np.asarray(com, float))

    # -- reference model stepped along the events ---------------------------
    def conform(self):
        """Returns (violations [(sig, detail)], stats dict)."""
        ev = self.events
        V = []
        st = {'iters': 0, 'accepts': 0, 'accepts_worse': 0, 'new_min': 0, 'states': set(),
              'newmin_trace_pos': [], 'held_at_newmin': []}
        if not self.inputs_intact:
            V.append(('search/input-array-modified', ''))
        if not ev or ev[0][0] != 'eval':
            return [('search/no-initial-evaluation', str(ev[:1]))], st
        _, obj, cfgcopy, e0 = ev[0]
        if not np.array_equal(cfgcopy, self.mobile0):
            V.append(('search/initial-evaluation-not-on-input', ''))
        held, held_obj = cfgcopy, obj
        E = e0
        if abs(E - chi2_ref(self.fixed, held, self.restr)) > 1e-9 * max(1.0, abs(E)):
            V.append(('search/measure-differs-from-definition', f'{E} vs {chi2_ref(self.fixed, held, self.restr)}'))
        E_min, counter = E, 0
        i = 1
        while True:
            if counter >= self.n:
                if i < len(ev):
                    V.append(('search/continues-after-budget-elapsed', f'extra events {[e[0] for e in ev[i:i+4]]}'))
                break
            if i >= len(ev):
                if not self.cut:
                    V.append(('search/stops-before-budget-elapsed', f'counter={counter} n={self.n}'))
                break
            if ev[i][0] != 'iter':
                V.append(('harness/unexpected-event', str(ev[i][0])))
                break
            kind = ev[i][1]
            st['iters'] += 1
            if kind not in self.kinds:
                V.append(('search/disabled-move-kind-used', str(kind)))
            i += 1
            aux = {}
            while i < len(ev) and ev[i][0] in ('trans', 'atom', 'move'):
                aux[ev[i][0]] = ev[i]
                i += 1
            if i >= len(ev):
                break                       # cut inside the iteration
            if ev[i][0] != 'eval':
                V.append(('harness/unexpected-event', str(ev[i][0])))
                break
            _, tobj, test, e1 = ev[i]
            i += 1
            # the proposal is a legal transformation of the held configuration
            scale = 1.0
            if kind == 0:
                d = test - held
                if 'trans' not in aux or np.abs(d - aux['trans'][1]).max() > 1e-12:
                    V.append(('search/translation-not-of-held-configuration', ''))
            elif kind == 1:
                if np.abs(test.mean(axis=0) - held.mean(axis=0)).max() > 1e-12:
                    V.append(('search/rotation-not-about-centroid-of-held', str(test.mean(axis=0) - held.mean(axis=0))))
                elif not same_shape(test, held, 1e-12):
                    V.append(('search/rotation-not-rigid', ''))
            elif kind == 2:
                if 'move' not in aux:
                    V.append(('search/atom-move-not-through-move_mol_atom', ''))
                else:
                    _, mi, mo = aux['move']
                    if not np.array_equal(mi, held):
                        V.append(('search/atom-move-not-of-held-configuration', ''))
                    if not np.array_equal(mo, test):
                        V.append(('search/atom-move-result-not-evaluated', ''))
                exact = []
                for a, b in self.edges:
                    ln = dict(self.info[a])[b]
                    if abs(np.linalg.norm(test[a] - test[b]) - ln) > 1e-9 * ln:
                        if len(self.edges) < len(self.mobile0):          # acyclic: every bond is exact
                            V.append(('search/atom-move-breaks-bond', f'{a}-{b}'))
                            break
                    else:
                        exact.append((a, b))
                else:
                    if len(self.edges) >= len(self.mobile0):
                        # cyclic: the bonds that are exact must still connect every atom (a traversal tree)
                        comp = {0}
                        grew = True
                        while grew:
                            grew = False
                            for a, b in exact:
                                if (a in comp) != (b in comp):
                                    comp |= {a, b}
                                    grew = True
                        if len(comp) != len(self.mobile0):
                            V.append(('search/atom-move-breaks-bond', f'exact bonds connect only {sorted(comp)}'))
            if abs(e1 - chi2_ref(self.fixed, test, self.restr)) > 1e-9 * max(1.0, abs(e1)):
                V.append(('search/measure-differs-from-definition', f'{e1}'))
            u = None
            if i < len(ev) and ev[i][0] == 'u':
                u = ev[i][1]
                i += 1
            if i >= len(ev):
                break
            if ev[i][0] != 'accept':
                V.append(('harness/unexpected-event', str(ev[i][0])))
                break
            _, a0, a1, dec, tpos = ev[i]
            i += 1
            if a0 != E:
                V.append(('search/judged-against-measure-other-than-held', f'given {a0}, held {E}, best {E_min}'))
            if a1 != e1:
                V.append(('search/judged-with-measure-other-than-proposal', f'given {a1}, proposal {e1}'))
            if e1 <= E:
                want = True
            else:
                if u is None:
                    V.append(('search/worse-proposal-decided-without-draw', ''))
                    want = dec
                else:
                    want = u <= 0.01 * E / e1
            if dec != want:
                V.append(('search/acceptance-rule', f'E={E} Enew={e1} u={u} decided={dec} expected={want}'))
            if dec:
                st['accepts'] += 1
                st['accepts_worse'] += int(e1 > E)
                held, held_obj, E = test, tobj, e1
                if E < E_min:
                    E_min, counter = E, 0
                    st['new_min'] += 1
                    st['newmin_trace_pos'].append(tpos)
                    st['held_at_newmin'].append(held)
                else:
                    counter += 1
            else:
                counter += 1
            st['states'].add((held.tobytes(), float(E), float(E_min), counter))
        if not self.cut and self.out is not None:
            if not np.array_equal(np.asarray(self.out), held):
                V.append(('search/returns-other-than-last-accepted', ''))
            if not np.all(np.isfinite(self.out)):
                V.append(('search/non-finite-result', ''))
        # a held configuration must never be mutated in place afterwards
        for e in ev:
            if e[0] == 'eval' and not np.array_equal(e[1], e[2]):
                V.append(('search/evaluated-configuration-mutated-later', ''))
                break
        return V, st


class C09(Check):
    pid = 'C09'
    level = 'model_checking'
    rule = ('execution = (molecule pair, restraint set, enabled move kinds, step budget, choice vector of the '
            'owned random stream); all choice vectors within horizon H and deviation bound D; distinct by '
            'descriptor+vector; non-trivial = at least one loop iteration with an acceptance decision')
    technique = ('stateless choice-point exploration (prefix replay, deviation-bounded) of the real Monte-Carlo '
                 'loop under an owned random source, with a reference model of the loop stepped along every execution')
    level_text = ('every random stream within the stated horizon/deviation bounds over a small alphabet of molecule '
                  'pairs, restraint sets, move-kind subsets and budgets is executed on the real loop and conformed, '
                  'event by event, to a reference model written from the statement; budgets 50 and 2000 only along '
                  'low-deviation paths')
    level_note = ('trusted: numpy, the reference chi2 and loop model (mcx/ref/mc.py), the seam (np.random entry points '
                  'and three module-level names of gaddlemaps._backend, restored and canaried after each execution). '
                  'Not covered: draw values outside the menus, streams beyond H/D, the compiled backend')
    assumptions = ['accept draw menu {0.999, thr(1+1e-9), thr(1-1e-9), 0} relative to thr = 0.01 E/Enew',
                   'translation/axis/angle/helper/length menus of 2 values each; moved atom: all atoms']

    def units(self, tier, seed):
        thorough = tier == 'thorough'
        self.bounds = {'horizon': 7 if thorough else 6, 'deviation_bound_small': 3 if thorough else 2,
                       'full_product': 'pairs 1x1, n<=2, H 4', 'budgets': [1, 2, 3, 50, 2000],
                       'long_improving_run': 'pair 30 default steps apart, budgets 1 and 2, H 40, D 1 (total steps >= 30 x budget)'}
        u = []
        for pair, (fx, mb, edges) in PAIRS.items():
            n2 = len(mb)
            kinds_all = [0, 1] + ([2] if edges else [])
            subsets = [list(s) for r in range(1, len(kinds_all) + 1)
                       for s in itertools.combinations(kinds_all, r)]
            rsets = ['none', 'one', 'all_fixed'] + (['dup'] if thorough else [])
            if pair == 'p1x1_far':
                for n in (1, 2):
                    u.append({'pair': pair, 'restr': 'none', 'kinds': [0], 'n': n, 'H': 40, 'D': 1})
                continue
            for restr in rsets:
                for kinds in subsets:
                    for n in (1, 2, 3):
                        if pair.startswith('p1x1'):
                            u.append({'pair': pair, 'restr': restr, 'kinds': kinds, 'n': n,
                                      'H': 4 if n <= 2 else 5, 'D': None if n <= 2 else 3})
                        else:
                            if pair == 'p5x4star' and not thorough and restr != 'none':
                                continue
                            u.append({'pair': pair, 'restr': restr, 'kinds': kinds, 'n': n,
                                      'H': self.bounds['horizon'], 'D': self.bounds['deviation_bound_small']})
        # a bond table object reused (and edited in place) between two searches
        for pair in ('p2x3', 'p4x3', 'p5x4star'):
            for kinds in ([2], [0, 1, 2]):
                u.append({'pair': pair, 'restr': 'none', 'kinds': kinds, 'n': 2, 'pre': 1,
                          'H': self.bounds['horizon'], 'D': 2})
        self.bounds['bond_table_reused'] = 'first search, table lengths doubled in place, explored second search (3 pairs)'
        # large budgets along low-deviation paths
        for pair in ('p3x2', 'p4x3'):
            kinds = [0, 1, 2]
            u.append({'pair': pair, 'restr': 'none', 'kinds': kinds, 'n': 50, 'H': 400, 'D': 1})
            u.append({'pair': pair, 'restr': 'one', 'kinds': kinds, 'n': 2000, 'H': 9000, 'D': 1,
                      'dev_at': [0, 1, 2, 1000, 1998, 1999]})
        # partition heavy configurations by their first choices (exact partition, see explore.roots)
        out = []
        for c in u:
            if c['D'] is not None and c['D'] >= 3 and c['n'] <= 3 and not c['pair'].startswith('p1x1'):
                cfg = {k: c[k] for k in ('pair', 'restr', 'kinds', 'n', 'pre') if k in c}
                for r in roots(lambda ctx: Run(cfg, ctx, c['H']), c['D'], 3):
                    out.append(dict(c, root=r))
            else:
                out.append(c)
        return out

    def cases(self, unit, tier, seed):
        yield dict(unit, diff=(tier == 'thorough'))

    def check_case(self, case, R, seed):
        H, D = case['H'], case['D']
        dev_at = set(case['dev_at']) if case.get('dev_at') else None
        cfg = {k: case[k] for k in ('pair', 'restr', 'kinds', 'n', 'pre') if k in case}
        seen_states = set()

        def one(ctx):
            run = Run(cfg, ctx, H, dev_at)
            return run

        def on_exec(ctx, run, cut):
            V, st = run.conform()
            desc = dict(cfg, H=H, D=D, choices=list(ctx.trace), **({'dev_at': case['dev_at']} if dev_at else {}))
            R.traces += 1
            R.transitions += st['iters']
            R.cut += int(run.cut)
            new_states = st['states'] - seen_states
            seen_states.update(new_states)
            R.states += len(new_states)
            R.add('accepts', st['accepts'])
            R.add('accepts_of_worse', st['accepts_worse'])
            R.add('new_minima', st['new_min'])
            R.add('max_choice_points', len(ctx.trace))
            outcome = ('cut' if run.cut else 'done') + f"/acc{min(st['accepts'], 3)}/min{min(st['new_min'], 2)}"
            R.case(desc, nontrivial=st['iters'] > 0, outcome=outcome,
                   cls=f"{cfg['pair']}/{cfg['restr']}/kinds{''.join(map(str, cfg['kinds']))}/n{cfg['n']}" + ('/table-reused' if cfg.get('pre') else ''))
            for sig, det in V:
                R.violation(sig, desc, det)
            # non-initial state differential: after a new minimum the loop state equals the
            # initial state of a fresh search from the held configuration
            if case.get('diff') and not cfg.get('pre') and not run.cut and st['newmin_trace_pos'] and dev_at is None \
                    and not V:
                p = st['newmin_trace_pos'][0]
                held = st['held_at_newmin'][0]
                rest = list(ctx.trace[p:])
                ctx2 = Ctx(rest)
                run2 = Run(cfg, ctx2, H, None, start=held)
                R.add('differential_restarts', 1)
                if run2.cut:
                    R.add('differential_restarts_cut', 1)
                elif not (np.array_equal(run2.out, run.out) and len(ctx2.trace) == len(rest)):
                    R.violation('search/continuation-differs-from-fresh-search-at-new-minimum', desc,
                                f'consumed {len(ctx2.trace)} of {len(rest)} choices')

        if 'choices' in case:
            ctx = Ctx(case['choices'])
            on_exec(ctx, one(ctx), False)
            return
        st = explore(one, D, on_exec, root=case.get('root', ()))


CHECK = C09()
