"""Reference reader for GROMACS .itp topology text (independent of the library).

Written from the file format as the property statements of C15 / C16 describe it:

* a line is one of
    - section header      ``[ name ]``            (blanks inside/around the brackets optional)
    - blank               only white space
    - preprocessor line   first non-blank character ``#``  (``#include``, ``#ifdef`` ...)
    - comment-only line   first non-blank character ``;``
    - content line        white-space separated tokens, optionally followed by one or
                          more ``; comment`` parts (each possibly empty)
* lines before the first header form the *header* (section name ``None``);
* a section name may occur several times: the items of all its occurrences are
  concatenated, sections are ordered by first appearance;
* preprocessor lines are not interpreted (both branches of an ``#ifdef`` are read,
  as the statement of C15 says: "preprocessor lines ignored").

Items (what a round trip has to keep, C16):
    ('content', (tok, ...), comment)   comment = tuple of normalised parts or ()
    ('comment', (part, ...))           a comment-only line that is not empty
    ('pp', text)                       a preprocessor line
Blank lines and empty comments are not items.  Comment text is normalised
(white space runs -> one blank, stripped) per ``;``-separated part.
"""

HEADER = None
BOND_SECTIONS = ('bonds', 'constraints', 'pairs')


def _norm(text):
    return ' '.join(text.split())


def _comment_parts(text):
    """Text after the first ';' -> tuple of normalised parts; () when nothing is said."""
    parts = tuple(_norm(p) for p in text.split(';'))
    return parts if any(parts) else ()


def classify(line):
    """Classify one physical line.

    Returns one of
        ('blank',)
        ('section', name, trailing_comment_parts)
        ('pp', text)
        ('comment', parts)            parts may be () for an empty comment
        ('content', tokens, parts)    parts == () when there is no (or an empty) comment
    """
    body = line.rstrip('\r\n')
    bare = body.strip()
    if not bare:
        return ('blank',)
    if bare[0] == '#':
        return ('pp', _norm(bare))
    if bare[0] == ';':
        return ('comment', _comment_parts(bare[1:]))
    if bare[0] == '[':
        close = bare.find(']')
        if close > 0:
            rest = bare[close + 1:].strip()
            if not rest or rest[0] == ';':
                return ('section', bare[1:close].strip(), _comment_parts(rest[1:]) if rest else ())
    semi = body.find(';')
    if semi < 0:
        return ('content', tuple(body.split()), ())
    return ('content', tuple(body[:semi].split()), _comment_parts(body[semi + 1:]))


class Parsed:
    """Result of parse(): ordered sections with items, and the occurrences."""

    def __init__(self):
        self.order = []          # section names by first appearance (header excluded)
        self.items = {}          # name -> [item, ...] concatenated over the occurrences
        self.occurrences = []    # [(name, [item, ...]), ...] in file order (header excluded)
        self.header = []         # items before the first section
        self.section_line_comments = 0   # headers carrying a trailing comment (not an item)

    def key(self):
        """Hashable/comparable image of everything a round trip must keep."""
        return (tuple(self.header), tuple(self.order),
                tuple(tuple(self.items[s]) for s in self.order))


def parse(text):
    out = Parsed()
    current = out.header
    # physical lines end at '\n' only (what a text-mode file yields); str.splitlines would also break at form feed,
    # vertical tab, NEL, U+2028 ... inside a comment
    for line in (ln + '\n' for ln in text.split('\n')):
        c = classify(line)
        kind = c[0]
        if kind == 'blank':
            continue
        if kind == 'section':
            name = c[1]
            if name not in out.items:
                out.items[name] = []
                out.order.append(name)
            current = []
            out.occurrences.append((name, current))
            if c[2]:
                out.section_line_comments += 1
            continue
        if kind == 'pp':
            item = ('pp', c[1])
        elif kind == 'comment':
            if not c[1]:
                continue
            item = ('comment', c[1])
        else:
            item = ('content', c[1], c[2])
        current.append(item)
        if current is not out.header:
            out.items[out.occurrences[-1][0]].append(item)
    return out


def content_rows(parsed, name):
    return [it[1] for it in parsed.items.get(name, []) if it[0] == 'content']


class Topology:
    """Molecule name, atom table, bond pairs as 0-based positions."""

    def __init__(self, name, atoms, numbers, pairs):
        self.name = name
        self.atoms = atoms            # [(atom name, residue name, residue number), ...]
        self.numbers = numbers        # file atom numbers in file order
        self.pairs = pairs            # [(i, j), ...] 0-based positions, file order per section
        self.graph = {frozenset(p) for p in pairs}

    def connected(self):
        return connected(len(self.atoms), self.pairs)


def topology(parsed):
    """Atom table and bond graph of a parsed file (raises KeyError/ValueError/IndexError
    when the file is not a complete single-molecule topology)."""
    rows = content_rows(parsed, 'moleculetype')
    name = rows[0][0]
    atoms, numbers, position = [], [], {}
    for row in content_rows(parsed, 'atoms'):
        nr = int(row[0])
        position[nr] = len(atoms)
        numbers.append(nr)
        atoms.append((row[4], row[3], int(row[2])))
    pairs = []
    for sec in BOND_SECTIONS:
        for row in content_rows(parsed, sec):
            pairs.append((position[int(row[0])], position[int(row[1])]))
    return Topology(name, atoms, numbers, pairs)


def connected(n, pairs):
    """Union-find: True iff the graph on 0..n-1 with these edges has one component."""
    parent = list(range(n))

    def find(x):
        root = x
        while parent[root] != root:
            root = parent[root]
        while parent[x] != root:
            parent[x], x = root, parent[x]
        return root
    comps = n
    for a, b in pairs:
        ra, rb = find(a), find(b)
        if ra != rb:
            parent[ra] = rb
            comps -= 1
    return comps == 1


def selftest():
    assert classify('\n') == ('blank',)
    assert classify('  \t \n') == ('blank',)
    assert classify('[ atoms ]\n') == ('section', 'atoms', ())
    assert classify('[atoms]') == ('section', 'atoms', ())
    assert classify(' [  bonds ] ; x\n') == ('section', 'bonds', ('x',))
    assert classify('#include "a.itp"\n') == ('pp', '#include "a.itp"')
    assert classify('; a  b\n') == ('comment', ('a b',))
    assert classify(';\n') == ('comment', ())
    assert classify('  ; ;\n') == ('comment', ())
    assert classify('1 2\t3\n') == ('content', ('1', '2', '3'), ())
    assert classify('1 2 ;\n') == ('content', ('1', '2'), ())
    assert classify('1 2 ; a ;  b c\n') == ('content', ('1', '2'), ('a', 'b c'))
    assert classify('1 2;a') == ('content', ('1', '2'), ('a',))
    txt = ('; top\n#include "ff.itp"\n[ moleculetype ]\nM 1\n[ atoms ]\n'
           '10 C 1 R A 10\n\n20 C 2 S B 20 ; c\n[ bonds ]\n10 20\n[ dihedrals ]\n;x\n[bonds]\n20 10 ; again\n'
           '[ pairs ]\n#ifdef X\n10 20 1\n#endif')
    p = parse(txt)
    assert p.order == ['moleculetype', 'atoms', 'bonds', 'dihedrals', 'pairs']
    assert p.header == [('comment', ('top',)), ('pp', '#include "ff.itp"')]
    assert p.items['bonds'] == [('content', ('10', '20'), ()), ('content', ('20', '10'), ('again',))]
    assert [n for n, _ in p.occurrences] == ['moleculetype', 'atoms', 'bonds', 'dihedrals', 'bonds', 'pairs']
    t = topology(p)
    assert t.name == 'M' and t.atoms == [('A', 'R', 1), ('B', 'S', 2)]
    assert t.pairs == [(0, 1), (1, 0), (0, 1)] and t.graph == {frozenset((0, 1))}
    assert t.connected()
    assert connected(1, []) and not connected(2, []) and connected(3, [(0, 2), (2, 1)])
    assert not connected(4, [(0, 1), (2, 3)])
    return True
