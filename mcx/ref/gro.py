"""Independent reference reader / formatter of the fixed-width .gro format.

Written from the format definition only (no code shared with gaddlemaps.parsers):

    line 1              free title
    line 2              number of atoms (an integer surrounded by blanks)
    natoms atom lines   columns  0- 4  residue number   (integer, right aligned)
                                 5- 9  residue name
                                10-14  atom name
                                15-19  atom number      (integer, right aligned)
                        then three position fields of width w with d = w - 5 decimals
                        and optionally three velocity fields of width w with d + 1
                        decimals; all atom lines of one file have the same length
    last line           box: 3 numbers  xx yy zz   or 9 numbers
                        xx yy zz xy xz yx yz zx zy   (free format, blank separated);
                        "ab" = component b of lattice vector a, vectors are matrix rows

The field width is recovered the way the format definition says a reader must do it:
from the distance between the first two decimal points of the first atom line.
"""
from decimal import Decimal, ROUND_HALF_EVEN


class GroFormatError(ValueError):
    pass


# ---------------------------------------------------------------------------
# reading
def _layout(line):
    """(w, d, has_velocities) of an atom line, from its decimal points."""
    tail = line[20:]
    dots = [20 + i for i, c in enumerate(tail) if c == '.']
    if len(dots) not in (3, 6):
        raise GroFormatError(f'{len(dots)} decimal points after column 20')
    w = dots[1] - dots[0]
    if w < 3:
        raise GroFormatError('fields too narrow')
    d = 20 + w - dots[0] - 1
    k = len(dots)
    if len(line) != 20 + k * w:
        raise GroFormatError(f'line length {len(line)} is not 20 + {k}*{w}')
    for i, p in enumerate(dots):
        want = 20 + (i + 1) * w - 1 - (d if i < 3 else d + 1)
        if p != want:
            raise GroFormatError(f'decimal point {i} at column {p}, expected {want}')
    return w, d, k == 6


def _atom(line, w, has_vel, length):
    if len(line) != length:
        raise GroFormatError(f'atom line of {len(line)} characters, expected {length}')
    try:
        resid = int(line[0:5])
        atomid = int(line[15:20])
        vals = [float(line[20 + i * w:20 + (i + 1) * w]) for i in range(6 if has_vel else 3)]
    except ValueError as e:
        raise GroFormatError(str(e))
    return (resid, line[5:10].strip(), line[10:15].strip(), atomid) + tuple(vals)


def ref_box(line):
    tok = line.split()
    if len(tok) not in (3, 9):
        raise GroFormatError(f'box line with {len(tok)} numbers')
    try:
        v = [float(t) for t in tok]
    except ValueError as e:
        raise GroFormatError(str(e))
    v += [0.0] * (9 - len(v))
    xx, yy, zz, xy, xz, yx, yz, zx, zy = v
    return [[xx, xy, xz], [yx, yy, yz], [zx, zy, zz]]


def ref_read_gro_full(text):
    """Parse a complete .gro text; returns a dict with title, natoms, records, box,
    fmt=(w, d, has_velocities) (None for an empty system), box_offset (character offset of
    the first character of the box line) and line_length (of the atom lines)."""
    lines = text.split('\n')
    if len(lines) < 3:
        raise GroFormatError('fewer than three lines')
    title = lines[0]
    cnt = lines[1].strip()
    if not cnt.isdigit():
        raise GroFormatError(f'atom count line {lines[1]!r}')
    natoms = int(cnt)
    if len(lines) < natoms + 3:
        raise GroFormatError('file shorter than the declared number of atoms + box line')
    atom_lines = lines[2:2 + natoms]
    fmt = None
    length = None
    records = []
    if natoms:
        w, d, has_vel = _layout(atom_lines[0])
        fmt = (w, d, has_vel)
        length = len(atom_lines[0])
        records = [_atom(ln, w, has_vel, length) for ln in atom_lines]
    box = ref_box(lines[2 + natoms])
    if any(ln.strip() for ln in lines[3 + natoms:]):
        raise GroFormatError('text after the box line')
    offset = sum(len(ln) + 1 for ln in lines[:2 + natoms])
    return {'title': title, 'natoms': natoms, 'records': records, 'box': box, 'fmt': fmt,
            'box_offset': offset, 'line_length': length}


def ref_read_gro(text):
    r = ref_read_gro_full(text)
    return r['title'], r['natoms'], r['records'], r['box']


# ---------------------------------------------------------------------------
# formatting
def fixed(x, w, d):
    """'%w.df' of the binary double x by exact decimal arithmetic (round half even on the
    exact value, which is what a correctly rounding printf does)."""
    q = Decimal(float(x)).quantize(Decimal(1).scaleb(-d), rounding=ROUND_HALF_EVEN)
    return format(q, 'f').rjust(w)


def ref_atom_line(rec, d):
    """rec = (resid, resname, name, atomid, x, y, z[, vx, vy, vz]); numbers are reduced to
    their last five digits, residue name left aligned, atom name right aligned."""
    w = d + 5
    s = (str(rec[0] % 100000).rjust(5) + rec[1].ljust(5) + rec[2].rjust(5)
         + str(rec[3] % 100000).rjust(5))
    s += ''.join(fixed(x, w, d) for x in rec[4:7])
    if len(rec) == 10:
        s += ''.join(fixed(x, w, d + 1) for x in rec[7:10])
    return s


def ref_box_line(m):
    """m: 3x3 nested sequence (rows = lattice vectors)."""
    v = [m[0][0], m[1][1], m[2][2], m[0][1], m[0][2], m[1][0], m[1][2], m[2][0], m[2][1]]
    if not any(float(x) != 0.0 for x in v[3:]):
        v = v[:3]
    return ' '.join(fixed(x, 9, 5) for x in v)


def ref_write_gro(title, records, box, d, count_width=None):
    """Text of a complete file. count_width=None: the count as a bare integer (count declared
    up front); an int: right aligned in that many columns (count filled in afterwards)."""
    n = str(len(records))
    out = [title, n if count_width is None else n.rjust(count_width)]
    out += [ref_atom_line(r, d) for r in records]
    out.append(ref_box_line(box))
    return '\n'.join(out) + '\n'
