"""Reference side for the exchange-map properties C01-C03.

Everything in here is computed from the *descriptor* of a case (bond graph as an
edge list, geometry class, placement class) and plain numpy; nothing is read back
from the library.  It provides

* the reference alphabet: every labelled graph with a vertex of degree >= 2,
  geometry classes (generic / exactly collinear along six directions / cube-corner
  right angles), 1- and 2-atom references;
* tie-free target placement (near an anchor, between an anchor and another atom,
  5 nm away) with an enforced margin between nearest and second-nearest anchor;
* ``ref_map``: the brute-force anchor-and-scale law  a + s*(p - a);
* cached builders of the real ``Molecule`` objects (through mcx.build.molecule).

Coordinates of the degenerate classes are dyadic rationals (multiples of 1/8), so
"exactly collinear" is exact in binary floating point: the cross product of the two
difference vectors is 0.0, not rounding noise - except along (1,2,3), where the
library's *normalised* first axis makes its own cross product noise (that class is
in the alphabet on purpose).
"""
import numpy as np

from mcx import enum as en
from mcx.build import generic_points, molecule, simple_atoms

GEO = ('generic', 'right', 'col_x', 'col_y', 'col_z', 'col_110', 'col_111', 'col_123')
DIRS = {'col_x': (1, 0, 0), 'col_y': (0, 1, 0), 'col_z': (0, 0, 1),
        'col_110': (1, 1, 0), 'col_111': (1, 1, 1), 'col_123': (1, 2, 3)}
STEP = 0.25
OFFSET = np.array([0.5, -0.25, 0.75])
KS = (0, 2, -1, 4, 1, -3)                   # distinct integer multiples, not monotone in the index
KS2 = (3, -2, 0, 1, -4, 5)                  # a second arrangement (C03 conformations)
CUBE_PATH = np.array([(0, 0, 0), (1, 0, 0), (1, 1, 0), (1, 1, 1), (0, 1, 1), (0, 0, 1)], dtype=float)
MARGIN = 1e-3                               # nm, nearest vs second-nearest anchor


# ---------------------------------------------------------------------------
# graphs
def ref_graphs(n):
    """Every labelled simple graph on n vertices with at least one vertex of degree >= 2."""
    out = []
    for e in en.all_graphs(n):
        adj = en.adjacency(n, e)
        if max(len(a) for a in adj) >= 2:
            out.append([list(p) for p in e])
    return out


def anchors(n, edges):
    adj = en.adjacency(n, [tuple(e) for e in edges])
    return [v for v in range(n) if len(adj[v]) >= 2]


def frame_neighbours(n, edges):
    """{anchor: (lowest bonded index, second lowest bonded index)}"""
    adj = en.adjacency(n, [tuple(e) for e in edges])
    return {v: tuple(sorted(adj[v])[:2]) for v in range(n) if len(adj[v]) >= 2}


# ---------------------------------------------------------------------------
# geometry
def collinear_points(n, direction, ks=KS, offset=OFFSET, step=STEP):
    d = np.array(direction, dtype=float)
    return np.array([offset + step * ks[i] * d for i in range(n)])


NEAR = {'near_col_1e-9': 1e-9, 'near_col_3e-10': 3e-10}     # opt-in classes (see checks/c01.py)


def near_collinear_points(n, eps):
    """Atoms on a line in a generic direction, each pushed off it by ~eps times its distance:
    every anchor triple has 0 < sin(angle) ~ eps (NOT exactly collinear)."""
    d = np.array([0.3, -0.7, 0.2])
    d /= np.linalg.norm(d)
    perp = np.cross(d, [0.2, 0.3, 0.9])
    perp /= np.linalg.norm(perp)
    w = (0.0, 1.0, -1.0, 0.5, -0.5, 2.0)
    return np.array([OFFSET + STEP * KS[i] * d + STEP * eps * w[i] * perp for i in range(n)])


SMALL = {'generic_small': 0.125}      # generic geometry shrunk so that anchors are 0.01 .. 0.1 nm apart
BENT = {'bent_1e-5': 1e-5}            # nearly straight, but bent enough that the frame is fully determined


def ref_positions(geo, n, seed):
    if geo in NEAR:
        return near_collinear_points(n, NEAR[geo])
    if geo in BENT:
        return near_collinear_points(n, BENT[geo])
    if geo in SMALL:
        return generic_points(n, seed, tag=100 + n) * SMALL[geo] + OFFSET
    if geo == 'arms':
        # a bent chain of two STRAIGHT arms along (4,2,1) and (1,2,4) (dyadic steps: exactly collinear triples in two
        # generic directions whose least-aligned cartesian axes differ)
        d1, d2 = np.array([4.0, 2.0, 1.0]) * 0.03125, np.array([1.0, 2.0, 4.0]) * 0.03125
        pts = [OFFSET, OFFSET + d1, OFFSET + 2 * d1, OFFSET + 2 * d1 + d2, OFFSET + 2 * d1 + 2 * d2,
               OFFSET + 2 * d1 + 3 * d2]
        return np.array(pts[:n])
    if geo == 'generic':
        return generic_points(n, seed, tag=100 + n)
    if geo == 'right':
        return OFFSET + STEP * CUBE_PATH[:n]
    return collinear_points(n, DIRS[geo])


def collapse_first_neighbour(pos, fn):
    """A copy of pos in which the LOWEST-numbered bonded atom of one anchor sits exactly on that anchor ("second frame
    point = first frame point": a particle resting on its parent atom), or None where no anchor has a lowest
    neighbour that is no anchor itself.  Such a neighbour is bonded to this anchor only, so no other frame sees it;
    an anchor coinciding with its SECOND frame neighbour is not produced (that frame has no first axis: outside what
    C17 promises)."""
    cand = [a for a in sorted(fn) if fn[a][0] not in fn]
    if not cand:
        return None
    out = np.array(pos, dtype=float).copy()
    out[fn[cand[0]][0]] = out[cand[0]]
    return out


def sin_angle(pos, a, nb):
    u = pos[nb[1]] - pos[a]
    v = pos[nb[0]] - pos[a]
    den = np.linalg.norm(u) * np.linalg.norm(v)
    if den == 0:
        return 0.0
    return float(np.linalg.norm(np.cross(u, v)) / den)


def exactly_collinear(pos, a, nb):
    return sin_angle(pos, a, nb) <= 1e-13


def well_conditioned(pos, fn, min_sin=0.02, min_sep=0.01):
    """Every anchor triple is either exactly collinear or clearly not; atoms distinct."""
    n = len(pos)
    for i in range(n):
        for j in range(i + 1, n):
            if np.linalg.norm(pos[i] - pos[j]) < min_sep:
                return False
    for a, nb in fn.items():
        s = sin_angle(pos, a, nb)
        if 1e-13 < s < min_sin:
            return False
    return True


def direction_table(seed, tag=900, k=64):
    g = generic_points(k, seed, tag=tag)
    return g / np.linalg.norm(g, axis=1)[:, None]


# ---------------------------------------------------------------------------
# targets
def _margin(p, apos):
    d = np.sort(np.linalg.norm(apos - p, axis=1))
    return np.inf if len(d) < 2 else d[1] - d[0]


def target_positions(ref_pos, anch, m, place, seed, margin=MARGIN):
    """m target points of placement class ``place``; each has a unique nearest anchor with
    at least ``margin`` to spare (deterministic: walks a fixed direction table)."""
    n = len(ref_pos)
    na = len(anch)
    apos = ref_pos[anch]
    G = direction_table(seed)
    out = []
    if place == 'near':
        for k in range(m):
            a = anch[k % na]
            dmin = min(np.linalg.norm(ref_pos[a] - ref_pos[o]) for o in range(n) if o != a)
            r = 0.35 * dmin * (0.55 + 0.45 * ((k * 5) % 7) / 6.0)
            for t in range(len(G)):
                p = ref_pos[a] + r * G[(3 * k + t) % len(G)]
                if _margin(p, apos) >= margin:
                    break
            else:
                raise RuntimeError('target_positions: no tie-free near point')
            out.append(p)
    elif place == 'between':
        pairs = [(a, o) for a in anch for o in range(n) if o != a]
        for k in range(m):
            a, o = pairs[(k * 5 + 1) % len(pairs)]
            v = ref_pos[o] - ref_pos[a]
            for t in range(len(G)):
                p = ref_pos[a] + 0.62 * v + 0.2 * np.linalg.norm(v) * G[(7 * k + t + 11) % len(G)]
                if _margin(p, apos) >= margin:
                    break
            else:
                raise RuntimeError('target_positions: no tie-free between point')
            out.append(p)
    elif place == 'far':
        c = ref_pos.mean(axis=0)
        for k in range(m):
            for t in range(len(G)):
                p = c + 5.0 * G[(t + 5) % len(G)] + 0.3 * G[(k + t + 23) % len(G)]
                if _margin(p, apos) >= margin:
                    break
            else:
                raise RuntimeError('target_positions: no tie-free far point')
            out.append(p)
    elif place == 'veryfar':
        # hundreds of nm away: any per-frame error that scales with the distance to the anchor shows up
        c = ref_pos.mean(axis=0)
        for k in range(m):
            for t in range(len(G)):
                p = c + 400.0 * G[(t + 9) % len(G)] + 3.0 * G[(k + t + 31) % len(G)]
                if _margin(p, apos) >= margin:
                    break
            else:
                raise RuntimeError('target_positions: no tie-free very far point')
            out.append(p)
    elif place == 'onanchor':
        # target atoms sitting (almost) ON reference atoms: offsets of a few 1e-9 nm, i.e. local coordinates far
        # below anything a "noise clean-up" would keep, yet 1e7 times above rounding
        for k in range(m):
            a = anch[k % na]
            out.append(ref_pos[a] + (4e-9 + 1e-9 * (k % 3)) * G[(2 * k + 7) % len(G)])
    elif place == 'neartie':
        # almost on the bisector plane of two anchors: the two nearest anchors differ in distance by ~1e-8 nm (far
        # above rounding, far below any sensible tolerance), the genuinely closer one having the HIGHER index
        if na < 2:
            return target_positions(ref_pos, anch, m, 'near', seed, margin)
        pairs = [(a, b) for i, a in enumerate(anch) for b in anch[i + 1:]]
        fallback = None
        for k in range(m):
            found = None
            for q in range(len(pairs)):
                lo, hi = pairs[(k + q) % len(pairs)]
                v = ref_pos[hi] - ref_pos[lo]
                u = v / np.linalg.norm(v)
                for t in range(len(G)):
                    g = G[(5 * k + t + 3) % len(G)]
                    w = g - (g @ u) * u
                    p = 0.5 * (ref_pos[lo] + ref_pos[hi]) + 0.15 * np.linalg.norm(v) * w / np.linalg.norm(w) + 0.5e-8 * u
                    d = np.sort(np.linalg.norm(apos - p, axis=1))
                    dl, dh = np.linalg.norm(p - ref_pos[lo]), np.linalg.norm(p - ref_pos[hi])
                    # lo / hi are the two nearest anchors, hi closer by 0.2e-8 .. 2e-8, a third anchor clearly farther
                    if 0.2e-8 < dl - dh < 2e-8 and abs(d[0] - dh) < 1e-12 and (len(d) < 3 or d[2] - d[1] >= margin):
                        found = p
                        break
                if found is not None:
                    break
            if found is None:        # e.g. three collinear anchors: another anchor sits between every such pair
                if fallback is None:
                    fallback = target_positions(ref_pos, anch, m, 'near', seed, margin)
                found = fallback[k]
            out.append(found)
    else:
        raise ValueError(place)
    return np.array(out)


def ref_map(ref_pos, anch, tgt_pos, s):
    """Brute-force anchor-and-scale law.  Returns (anchor index per target atom, expected
    positions a + s*(p - a), smallest nearest/second-nearest margin)."""
    assign, exp, marg = [], [], np.inf
    for p in tgt_pos:
        best, bd, second = None, np.inf, np.inf
        for a in anch:
            d = float(np.sqrt(((p - ref_pos[a]) ** 2).sum()))
            if d < bd:
                best, bd, second = a, d, bd
            elif d < second:
                second = d
        assign.append(best)
        marg = min(marg, second - bd)
        exp.append(ref_pos[best] + s * (p - ref_pos[best]))
    return assign, np.array(exp), marg


# ---------------------------------------------------------------------------
# real molecules (cached per process; positions are assigned per case)
_REF = {}
_TGT = {}


def ref_molecule(n, edges, nres=1, hnames=False):
    """hnames: every second atom (0-based 1, 3, ...) is called H<k> - a hydrogen by its name - the others C<k>."""
    key = (n, tuple(tuple(e) for e in edges), nres, bool(hnames))
    if key not in _REF:
        if len(_REF) > 64:
            _REF.clear()
        atoms = simple_atoms(n, 'REF', 'C')
        if nres == 2:                 # two residues (the map requires as many residues as its target has)
            atoms = [(f'C{i + 1}', 'RFA' if i < 1 else 'RFB', 1 if i < 1 else 2) for i in range(n)]
        if hnames:
            atoms = [((f'H{i + 1}' if i % 2 else a[0]),) + tuple(a[1:]) for i, a in enumerate(atoms)]
        _REF[key] = molecule('REF', atoms, [tuple(e) for e in edges], generic_points(n, 0, tag=1))
    return _REF[key]


def tgt_molecule(m, nres=1):
    """Target of m atoms in one residue, or (nres=2) split into two differently named residues."""
    if (m, nres) not in _TGT:
        atoms = simple_atoms(m, 'TGT', 'H')
        if nres == 2:
            h = (m + 1) // 2
            atoms = [(f'H{i + 1}', 'TGA' if i < h else 'TGB', 1 if i < h else 2) for i in range(m)]
        _TGT[(m, nres)] = molecule('TGT', atoms, [(i, i + 1) for i in range(m - 1)],
                                   generic_points(m, 0, tag=2, min_sin=0.0))
    return _TGT[(m, nres)]


def placed(mol, pos):
    """A copy of ``mol`` (same species) at positions ``pos``."""
    c = mol.copy()
    c.atoms_positions = np.array(pos, dtype=float)
    return c


def selftest():
    assert [len(ref_graphs(n)) for n in (3, 4, 5)] == [4, 54, 998]
    for geo in GEO[2:]:
        p = ref_positions(geo, 5, 0)
        for a in range(5):
            for b in range(5):
                for c in range(5):
                    if len({a, b, c}) == 3 and geo != 'col_123':
                        assert np.linalg.norm(np.cross(p[b] - p[a], p[c] - p[a])) == 0.0
    p = ref_positions('right', 5, 0)
    for a in range(5):
        for b in range(5):
            for c in range(b + 1, 5):
                if len({a, b, c}) == 3:
                    assert sin_angle(p, a, (b, c)) > 0.5
    return True
