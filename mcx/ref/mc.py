"""Reference model and owned random stream for the Monte-Carlo search (C09, C06).

chi2_ref is written from the C08/C09 statements (three nested loops), not from the
library.  McScript turns every random draw of the search into a choice point with a
small finite menu; the accept draw menu is placed *relative to the acceptance
threshold* so the predicate u <= 0.01*E/E' is exercised on both sides of the boundary.
"""
import itertools

import numpy as np

from mcx.explore import Horizon


def chi2_ref(fixed, mobile, restraints):
    fixed = np.asarray(fixed, float)
    mobile = np.asarray(mobile, float)
    total = 0.0
    restrained_fixed = set()
    used_mobile = set()
    for i, j in restraints or []:
        total += float(np.sum((fixed[i] - mobile[j]) ** 2))
        restrained_fixed.add(int(i))
        used_mobile.add(int(j))
    for i in range(len(fixed)):
        if i in restrained_fixed:
            continue
        best, bj = None, None
        for j in range(len(mobile)):
            d = float(np.sum((fixed[i] - mobile[j]) ** 2))
            if best is None or d < best:
                best, bj = d, j
        total += best
        used_mobile.add(bj)
    k = len(mobile) - len(used_mobile)
    return total * 1.1 ** k


def same_shape(a, b, tol):
    """b is a proper rigid motion of a: all pairwise distances equal (tol) and, for >= 4
    atoms, the best *proper* rotation (Kabsch, det = +1) superposes them within 10*tol."""
    a = np.asarray(a, float)
    b = np.asarray(b, float)
    n = len(a)
    if n > 1:
        da = np.linalg.norm(a[:, None, :] - a[None, :, :], axis=2)
        db = np.linalg.norm(b[:, None, :] - b[None, :, :], axis=2)
        if np.abs(da - db).max() > tol:
            return False
    if n >= 4:
        ac = a - a.mean(axis=0)
        bc = b - b.mean(axis=0)
        u, _, vt = np.linalg.svd(ac.T @ bc)
        d = np.sign(np.linalg.det(u @ vt))
        rot = u @ np.diag([1.0, 1.0, d]) @ vt
        if np.abs(ac @ rot - bc).max() > 10 * tol * max(1.0, np.abs(ac).max()):
            return False
    return True


class McScript:
    """Owned random stream of _minimize_molecules / move_mol_atom / accept_metropolis.

    ctx: explorer context.  horizon: maximum number of loop iterations (counted at the
    draw of the move kind).  deviate_at: optional set of iteration indices at which
    non-default answers are offered (elsewhere the menu has the default only).
    """

    # the last entry of the translation / angle / length menus is a *tiny* move: it produces
    # near-ties of the overlap measure and barely stretched bonds (tolerance shortcuts)
    TRANS = (np.array([0.30, -0.20, 0.10]), np.array([-0.30, 0.20, -0.10]), np.array([1e-6, -1e-6, 1e-6]))
    # the second axis has length 1 + 4e-6: inside any "already a unit vector" tolerance, yet not one
    AXES = (np.array([0.3, -0.8, 0.5]),
            np.array([-0.9, 0.1, 0.4]) / float(np.linalg.norm([-0.9, 0.1, 0.4])) * (1.0 + 4e-6))
    THETAS = (0.4, -1.3, 1e-6, 5e-4)       # 5e-4: inside any "small angle" shortcut, yet visible at 1e-9 nm
    HELPERS = (np.array([0.31, 0.77, 0.52]), np.array([0.93, 0.12, 0.64]))
    LENGTHS = (0.7, -1.3, 2e-3)    # in units of sigma

    def __init__(self, ctx, horizon, events, deviate_at=None, accept_menu=4):
        self.ctx = ctx
        self.horizon = horizon
        self.events = events
        self.iteration = -1
        self.kind = None
        self.in_move = False
        self.pending = None         # (E, E') of the accept call in progress
        self.deviate_at = deviate_at
        self.accept_menu = accept_menu

    def _choose(self, n, tag):
        if self.deviate_at is not None and self.iteration not in self.deviate_at:
            return self.ctx.choose(1, tag)
        return self.ctx.choose(n, tag)

    def __call__(self, kind, a, k):
        ctx = self.ctx
        if kind == 'choice':
            if self.in_move:                       # sign in find_atom_random_displ
                opts = a[0]
                return opts[self._choose(len(opts), 'sign')]
            self.iteration += 1
            if self.iteration >= self.horizon:
                raise Horizon()
            opts = list(a[0])
            self.kind = opts[self._choose(len(opts), 'kind')]
            self.events.append(('iter', int(self.kind)))
            return self.kind
        if kind == 'normal':
            size = a[2] if len(a) > 2 else k.get('size')
            if size == 3:
                v = self.TRANS[self._choose(len(self.TRANS), 'trans')] * a[1]
                self.events.append(('trans', v.copy()))
                return v
            if self.in_move:
                self.in_move = False
                return self.LENGTHS[self._choose(len(self.LENGTHS), 'length')] * a[1]
            return self.THETAS[self._choose(len(self.THETAS), 'theta')]
        if kind == 'uniform':
            return self.AXES[self._choose(2, 'axis')].copy()
        if kind == 'randint':
            self.in_move = True
            c = self._choose(a[0], 'atom')
            self.events.append(('atom', c))
            return c
        if kind == 'rand':
            if a == (3,):
                return self.HELPERS[self._choose(2, 'helper')].copy()
            # accept draw: menu relative to the threshold
            e0, e1 = self.pending
            thr = 0.01 * e0 / e1
            menu = (0.999, thr * (1 + 1e-9) + 1e-300, thr * (1 - 1e-9), 0.0)[:self.accept_menu]
            u = menu[self._choose(len(menu), 'accept')]
            self.events.append(('u', u))
            return u
        raise AssertionError(f'unexpected draw {kind}{a}')
