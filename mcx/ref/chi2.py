"""Reference overlap measure, written from the statement of property C08.

    value = ( sum over the restraint list of |fixed[i] - mobile[j]|^2
              + sum over unrestrained fixed atoms of the squared distance to the
                nearest mobile atom )  *  1.1 ** k

    k = number of mobile atoms that are neither restrained (appear as j in a
        restraint) nor the nearest mobile atom of any unrestrained fixed atom.

Plain nested loops over Python floats; no numpy vectorisation, no path selection,
nothing cached.  A restraint list is taken literally: an entry that occurs twice
contributes twice to the restrained sum (and, being a set membership, once to k).
Nearest-neighbour ties are the caller's responsibility (the first index wins here).
"""


def sqdist(p, q):
    s = 0.0
    for a, b in zip(p, q):
        d = float(a) - float(b)
        s += d * d
    return s


def ref_parts(fixed, mobile, restraints):
    """Return (restrained sum, nearest-neighbour sum, k, nearest index per unrestrained fixed atom)."""
    n1, n2 = len(fixed), len(mobile)
    restraints = [(int(i), int(j)) for i, j in (restraints if restraints is not None else [])]
    restrained_fixed = set()
    restrained_mobile = set()
    s_restr = 0.0
    for i, j in restraints:
        restrained_fixed.add(i)
        restrained_mobile.add(j)
        s_restr += sqdist(fixed[i], mobile[j])
    s_near = 0.0
    nearest = {}
    for i in range(n1):
        if i in restrained_fixed:
            continue
        best, best_j = None, None
        for j in range(n2):
            d = sqdist(fixed[i], mobile[j])
            if best is None or d < best:
                best, best_j = d, j
        s_near += best
        nearest[i] = best_j
    used = set(nearest.values())
    k = 0
    for j in range(n2):
        if j not in restrained_mobile and j not in used:
            k += 1
    return s_restr, s_near, k, nearest


def ref_chi2(fixed, mobile, restraints):
    s_restr, s_near, k, _ = ref_parts(fixed, mobile, restraints)
    return (s_restr + s_near) * 1.1 ** k


def nn_gap(fixed, mobile):
    """Smallest difference between the two smallest squared distances of any fixed atom
    to the mobile atoms (infinite when there is a single mobile atom): tie margin."""
    gap = float('inf')
    for p in fixed:
        ds = sorted(sqdist(p, q) for q in mobile)
        if len(ds) >= 2:
            gap = min(gap, ds[1] - ds[0])
    return gap


def all_gap(fixed, mobile):
    """Smallest difference between any two squared distances from one fixed atom."""
    gap = float('inf')
    for p in fixed:
        ds = sorted(sqdist(p, q) for q in mobile)
        for a, b in zip(ds, ds[1:]):
            gap = min(gap, b - a)
    return gap
