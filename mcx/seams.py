"""Seams: ownership of every source of nondeterminism by attribute injection.

No source edit of the library is needed: the library looks these names up at call
time (np.random.*, module globals).  Every seam is a context manager that restores
the original and asserts that it did (a leaked seam would make later executions
vacuous).
"""
import contextlib
import io
import os

import numpy as np

_RANDOM_NAMES = ('choice', 'normal', 'uniform', 'rand', 'randint', 'random', 'seed')
_ORIG = {k: getattr(np.random, k) for k in _RANDOM_NAMES}


class ScriptedRandom:
    """Replacement for the np.random entry points used by the library.

    ``script(kind, args, kwargs)`` returns the drawn value; it is usually a method of
    a harness that turns each draw into a choice point.
    """

    def __init__(self, script):
        self.script = script
        self.log = []

    def _draw(self, kind, *a, **k):
        v = self.script(kind, a, k)
        self.log.append(kind)
        return v

    def choice(self, *a, **k):
        return self._draw('choice', *a, **k)

    def normal(self, *a, **k):
        return self._draw('normal', *a, **k)

    def uniform(self, *a, **k):
        return self._draw('uniform', *a, **k)

    def rand(self, *a, **k):
        return self._draw('rand', *a, **k)

    def randint(self, *a, **k):
        return self._draw('randint', *a, **k)

    def random(self, *a, **k):
        return self._draw('random', *a, **k)


@contextlib.contextmanager
def owned_random(script):
    sr = ScriptedRandom(script)
    try:
        for k in ('choice', 'normal', 'uniform', 'rand', 'randint', 'random'):
            setattr(np.random, k, getattr(sr, k))
        yield sr
    finally:
        for k, v in _ORIG.items():
            setattr(np.random, k, v)
        canary_random()


def canary_random():
    for k, v in _ORIG.items():
        assert getattr(np.random, k) is v, f'seam leak: np.random.{k}'


@contextlib.contextmanager
def patched(obj, name, value):
    """Temporarily set obj.name = value (module global or class attribute)."""
    missing = object()
    old = obj.__dict__.get(name, missing) if hasattr(obj, '__dict__') else getattr(obj, name, missing)
    had = old is not missing
    setattr(obj, name, value)
    try:
        yield
    finally:
        if had:
            setattr(obj, name, old)
        else:
            try:
                delattr(obj, name)
            except AttributeError:
                pass


@contextlib.contextmanager
def quiet_stdout():
    import sys
    old = sys.stdout
    sys.stdout = io.StringIO()
    try:
        yield
    finally:
        sys.stdout = old


# ---------------------------------------------------------------------------
class RecordingFile:
    """In-memory text file that logs write/seek operations (for crash images)."""

    def __init__(self, store, name, mode):
        self.store = store
        self.name = name
        self.mode = mode
        self.pos = 0
        self.closed = False
        if 'w' in mode:
            store.data[name] = ''
            store.ops.setdefault(name, [])
        elif name not in store.data:
            raise FileNotFoundError(name)

    # write side
    def write(self, text):
        data = self.store.data[self.name]
        if self.pos > len(data):
            data = data + '\0' * (self.pos - len(data))
        data = data[:self.pos] + text + data[self.pos + len(text):]
        self.store.data[self.name] = data
        self.store.ops[self.name].append(('write', self.pos, text))
        self.pos += len(text)
        return len(text)

    def seek(self, pos, whence=0):
        assert whence == 0
        self.pos = pos
        if 'w' in self.mode:
            self.store.ops[self.name].append(('seek', pos))
        return pos

    def tell(self):
        return self.pos

    # read side
    def readline(self):
        data = self.store.data[self.name]
        if self.pos >= len(data):
            return ''
        j = data.find('\n', self.pos)
        j = len(data) if j < 0 else j + 1
        out = data[self.pos:j]
        self.pos = j
        return out

    def __iter__(self):
        while True:
            ln = self.readline()
            if not ln:
                return
            yield ln

    def read(self):
        data = self.store.data[self.name]
        out = data[self.pos:]
        self.pos = len(data)
        return out

    def close(self):
        if not self.closed and 'w' in self.mode:
            self.store.ops[self.name].append(('close',))
        self.closed = True

    def flush(self):
        pass

    def __enter__(self):
        return self

    def __exit__(self, *a):
        self.close()


class FileStore:
    """A tiny in-memory file system; ``store.open`` replaces a module's ``open``."""

    def __init__(self):
        self.data = {}
        self.ops = {}

    def open(self, name, mode='r', *a, **k):
        return RecordingFile(self, name, mode)

    def replace(self, src, dst, *a, **k):
        """os.replace / os.rename on the in-memory files (a writer that saves through a scratch name and renames
        it on close); names the store does not know go to the real function."""
        if src in self.data:
            self.data[dst] = self.data.pop(src)
            self.ops[dst] = self.ops.pop(src, [])
            return None
        return self._real_replace(src, dst, *a, **k)

    _real_replace = staticmethod(os.replace)

    @contextlib.contextmanager
    def installed(self, module):
        """module.open, os.replace and os.rename answered by this store."""
        with patched(module, 'open', self.open), patched(os, 'replace', self.replace), \
                patched(os, 'rename', self.replace):
            yield self

    @staticmethod
    def image(ops, upto, tail_bytes=None):
        """File content after the first ``upto`` logged operations; if tail_bytes is
        given, the operation number ``upto`` (a write) is applied only partially."""
        data = ''

        def apply(d, pos, text):
            if pos > len(d):
                d = d + '\0' * (pos - len(d))
            return d[:pos] + text + d[pos + len(text):]
        for op in ops[:upto]:
            if op[0] == 'write':
                data = apply(data, op[1], op[2])
        if tail_bytes is not None and upto < len(ops) and ops[upto][0] == 'write':
            data = apply(data, ops[upto][1], ops[upto][2][:tail_bytes])
        return data
