"""Explicit-state breadth-first search over operation histories on the real objects.

A state is the event history that reaches it: live library objects are never copied,
the history is replayed on freshly built objects.  The oracle is evaluated on EVERY
transition; de-duplication by canonical key only skips the *expansion* of an already
expanded key, never the check of a transition.
"""


def bfs(build, enabled, step, key, depth, on_transition, max_states=None):
    """
    build() -> fresh state (implementation objects + reference model, stepped together)
    enabled(state) -> list of JSON-able events
    step(state, ev) -> list of (signature, detail) violations of this transition
    key(state) -> hashable canonical key (None = never merge)
    on_transition(history, ev, violations)
    Returns dict(states, transitions, depth_completed, frontier_sizes, capped).
    """
    def replay(hist):
        st = build()
        for ev in hist:
            step(st, ev)
        return st

    init = build()
    k0 = key(init)
    seen = {k0} if k0 is not None else set()
    n_states = 1
    frontier = [[]]
    stats = {'states': 1, 'transitions': 0, 'depth_completed': 0, 'frontier_sizes': [1], 'capped': False}
    for d in range(depth):
        nxt = []
        for hist in frontier:
            base = replay(hist)
            evs = enabled(base)
            for i, ev in enumerate(evs):
                st = base if i == len(evs) - 1 else replay(hist)   # last event may consume base
                viol = step(st, ev)
                stats['transitions'] += 1
                on_transition(hist, ev, viol)
                if viol:
                    continue            # a diverged state is reported once and not expanded
                k = key(st)
                if k is None or k not in seen:
                    if k is not None:
                        seen.add(k)
                    n_states += 1
                    nxt.append(hist + [ev])
                    if max_states is not None and n_states >= max_states:
                        stats['capped'] = True
        stats['depth_completed'] = d + 1
        stats['frontier_sizes'].append(len(nxt))
        frontier = nxt
        if not frontier or stats['capped']:
            break
    stats['states'] = n_states
    return stats


def run_history(build, step, history, on_transition):
    """Execute one (long) history, oracle after every event."""
    st = build()
    done = []
    for ev in history:
        viol = step(st, ev)
        on_transition(done, ev, viol)
        done = done + [ev]
        if viol:
            break                       # first divergence ends the history
    return st
