"""mcx core: check interface, parallel runner, evidence, replays, known findings.

A *check* enumerates a finite space completely.  The space is partitioned into
*units* (work items for the process pool); a unit yields *cases*; a case is a
JSON-able descriptor that is sufficient to re-execute it (``check_case``) with
no explorer around it.  Nothing in here samples: VERIF_SEED only selects the
generic coordinate tables used by the builders.
"""
import hashlib
import importlib
import json
import multiprocessing as mp
import os
import subprocess
import sys
import time
import traceback

VERIF = os.path.dirname(os.path.dirname(os.path.abspath(__file__)))
REPO = os.environ.get('VERIF_REPO', '/repo')
MAX_VIOL_PER_SIG = 5          # violation records kept per signature per unit
MAX_SAMPLES = 12


def bind_repo():
    """Make ``import gaddlemaps`` resolve to the working tree under VERIF_REPO."""
    os.environ.setdefault('PYTHONDONTWRITEBYTECODE', '1')
    sys.dont_write_bytecode = True
    os.environ['GADDLEMAPS_VERIF'] = '1'
    if REPO not in sys.path[:1]:
        sys.path.insert(0, REPO)
    import gaddlemaps
    root = os.path.realpath(os.path.dirname(os.path.dirname(gaddlemaps.__file__)))
    if root != os.path.realpath(REPO):
        raise SystemExit(f'HARNESS-ERROR gaddlemaps imported from {root}, expected {REPO}')
    return gaddlemaps


def digest(obj):
    return hashlib.blake2b(json.dumps(obj, sort_keys=True, default=str).encode(),
                           digest_size=8).hexdigest()


class Result:
    """Accumulator for one unit (mergeable)."""

    def __init__(self):
        self.evaluations = 0
        self.nontrivial = 0          # distinct AND non-trivial cases (see Check.rule)
        self._seen = set()
        self.states = 0
        self.transitions = 0
        self.traces = 0
        self.outcomes = {}           # outcome label -> count
        self.classes = {}            # alphabet class -> count
        self.samples = []
        self.violations = []         # dicts {sig, case, detail}
        self.viol_count = {}         # sig -> total count
        self.extra = {}              # numeric extras, summed (max_* keys are max-ed)
        self.cut = 0                 # executions cut at the horizon

    # -- bookkeeping ----------------------------------------------------
    def case(self, desc, nontrivial=True, outcome=None, cls=None, n=1):
        self.evaluations += n
        if nontrivial:
            d = digest(desc)
            if d not in self._seen:
                self._seen.add(d)
                self.nontrivial += 1
        if outcome is not None:
            self.outcomes[outcome] = self.outcomes.get(outcome, 0) + 1
        if cls is not None:
            self.classes[cls] = self.classes.get(cls, 0) + 1
            if self.classes[cls] == 1 and len(self.samples) < MAX_SAMPLES:
                self.samples.append(desc)

    def sample(self, desc):
        if len(self.samples) < MAX_SAMPLES:
            self.samples.append(desc)

    def violation(self, sig, case, detail):
        self.viol_count[sig] = self.viol_count.get(sig, 0) + 1
        if self.viol_count[sig] <= MAX_VIOL_PER_SIG:
            self.violations.append({'sig': sig, 'case': case, 'detail': str(detail)[:2000]})

    def add(self, key, val=1):
        if key.startswith('max_'):
            self.extra[key] = max(self.extra.get(key, val), val)
        else:
            self.extra[key] = self.extra.get(key, 0) + val

    # -- merging ---------------------------------------------------------
    def export(self):
        d = dict(self.__dict__)
        d.pop('_seen')
        return d

    def merge(self, d):
        self.evaluations += d['evaluations']
        self.nontrivial += d['nontrivial']
        self.states += d['states']
        self.transitions += d['transitions']
        self.traces += d['traces']
        self.cut += d['cut']
        for k, v in d['outcomes'].items():
            self.outcomes[k] = self.outcomes.get(k, 0) + v
        for k, v in d['classes'].items():
            self.classes[k] = self.classes.get(k, 0) + v
        for s in d['samples']:
            if len(self.samples) < MAX_SAMPLES and s not in self.samples:
                self.samples.append(s)
        for k, v in d['viol_count'].items():
            self.viol_count[k] = self.viol_count.get(k, 0) + v
        have = {}
        for v in self.violations:
            have[v['sig']] = have.get(v['sig'], 0) + 1
        for v in d['violations']:
            if have.get(v['sig'], 0) < MAX_VIOL_PER_SIG:
                self.violations.append(v)
                have[v['sig']] = have.get(v['sig'], 0) + 1
        for k, v in d['extra'].items():
            self.add(k, v)


class Check:
    pid = 'C00'
    level = 'exploration'            # exploration | model_checking | fault_enumeration
    rule = ''
    assumptions = []
    exhaustive = True
    level_text = ''
    level_note = ''
    technique = ''
    bounds = {}                      # filled by units(); reported in the evidence

    def units(self, tier, seed):
        """Partition of the explored space: a list of JSON-able unit descriptors."""
        raise NotImplementedError

    def cases(self, unit, tier, seed):
        """Yield the case descriptors of one unit."""
        raise NotImplementedError

    def check_case(self, case, R, seed):
        """Execute one case on the real code and record into R."""
        raise NotImplementedError

    def run_unit(self, unit, tier, seed):
        R = Result()
        for case in self.cases(unit, tier, seed):
            try:
                self.check_case(case, R, seed)
            except Exception:
                R.violation('harness/exception', case,
                            traceback.format_exc()[-1500:])
        return R

    def setup(self, tier, seed):
        """Called once in the parent before forking (build shared tables)."""


# ---------------------------------------------------------------------------
_CHECK = None
_TIER = None
_SEED = None


_HIST = []          # the units this worker process has executed so far (a forked worker starts with the parent's: none)


def _worker(unit):
    try:
        _HIST.append(unit)
        d = _CHECK.run_unit(unit, _TIER, _SEED).export()
        seen = set()
        for v in d['violations']:
            v['unit'] = unit
            if v['sig'] not in seen:          # what this process ran before, for violations that depend on it
                seen.add(v['sig'])
                v['hist'] = list(_HIST)
        return d
    except Exception:
        R = Result()
        R.violation('harness/unit-exception', {'unit': unit}, traceback.format_exc()[-1500:])
        return R.export()


def load_check(pid):
    mod = importlib.import_module('checks.' + pid.lower())
    return mod.CHECK


def load_findings():
    path = os.path.join(VERIF, 'known_findings.json')
    if not os.path.exists(path):
        return []
    with open(path) as fh:
        return json.load(fh).get('findings', [])


def write_replay(pid, sig, n, viol, seed, tier):
    rdir = os.environ.get('VERIF_REPLAY_DIR') or os.path.join(VERIF, 'replays')
    os.makedirs(rdir, exist_ok=True)
    safe = ''.join(c if c.isalnum() or c in '-_' else '_' for c in sig)[:80]
    path = os.path.join(rdir, f'{pid}-{safe}-{n}.json')
    with open(path, 'w') as fh:
        json.dump({'property': pid, 'signature': sig, 'seed': seed, 'tier': tier,
                   'case': viol['case'], 'detail': viol['detail']}, fh, indent=1, default=str)
    test = os.path.join(rdir, f'test_{pid}_{safe}_{n}.py')
    with open(test, 'w') as fh:
        fh.write('# generated: replays one case on the real code, no explorer\n'
                 'import json, os, sys\n'
                 f'sys.path.insert(0, {VERIF!r})\n'
                 'from mcx import core\n'
                 'core.bind_repo()\n'
                 f'def test_replay():\n'
                 f'    rep = json.load(open({path!r}))\n'
                 f'    chk = core.load_check({pid!r})\n'
                 '    R = core.Result()\n'
                 '    chk.setup(rep["tier"], rep["seed"])\n'
                 '    if isinstance(rep["case"], dict) and "units_replay" in rep["case"]:\n'
                 '        chk.units(rep["tier"], rep["seed"])\n'
                 '        for u in rep["case"]["units_replay"]:\n'
                 '            R.merge(chk.run_unit(u, rep["tier"], rep["seed"]).export())\n'
                 '    elif isinstance(rep["case"], dict) and "unit_replay" in rep["case"]:\n'
                 '        chk.units(rep["tier"], rep["seed"])\n'
                 '        R = chk.run_unit(rep["case"]["unit_replay"], rep["tier"], rep["seed"])\n'
                 '    else:\n'
                 '        chk.check_case(rep["case"], R, rep["seed"])\n'
                 '    assert not R.violations, R.violations\n'
                 'if __name__ == "__main__":\n'
                 '    test_replay()\n')
    return path


def validate_evidence(path):
    vt = '/opt/veriftools/pyvenv/bin/python'
    schema = '/root/.vp/EVIDENCE.schema.json'
    if not (os.path.exists(vt) and os.path.exists(schema)):
        return None
    code = ('import json,sys,jsonschema;'
            'jsonschema.validate(json.load(open(sys.argv[1])),json.load(open(sys.argv[2])))')
    p = subprocess.run([vt, '-c', code, path, schema], capture_output=True, text=True)
    return p.returncode == 0 or p.stderr[-800:]


def unit_in_fresh_process(pid, tier, seed, unit):
    """Signatures violated when ``unit`` is executed alone by a fresh interpreter (deterministic)."""
    code = ('import json,sys\n'
            'from mcx import core\n'
            'core.bind_repo()\n'
            'chk = core.load_check(sys.argv[1]); tier, seed = sys.argv[2], int(sys.argv[3])\n'
            'chk.setup(tier, seed); chk.units(tier, seed)\n'
            'R = chk.run_unit(json.loads(sys.argv[4]), tier, seed)\n'
            'print("UNIT-SIGS " + json.dumps(sorted(R.viol_count)))\n')
    env = dict(os.environ, PYTHONPATH=VERIF + os.pathsep + os.environ.get('PYTHONPATH', ''))
    p = subprocess.run([sys.executable, '-W', 'ignore', '-c', code, pid, tier, str(seed), json.dumps(unit)],
                       capture_output=True, text=True, env=env, cwd=VERIF)
    for ln in p.stdout.splitlines():
        if ln.startswith('UNIT-SIGS '):
            return set(json.loads(ln[10:]))
    return set()


def units_in_fresh_process(pid, tier, seed, units):
    """Signatures violated when the given SEQUENCE of units is executed, in order, by one fresh interpreter."""
    code = ('import json,sys\n'
            'from mcx import core\n'
            'core.bind_repo()\n'
            'chk = core.load_check(sys.argv[1]); tier, seed = sys.argv[2], int(sys.argv[3])\n'
            'chk.setup(tier, seed); chk.units(tier, seed)\n'
            'sigs = set()\n'
            'for u in json.load(sys.stdin):\n'
            '    sigs |= set(chk.run_unit(u, tier, seed).viol_count)\n'
            'print("UNIT-SIGS " + json.dumps(sorted(sigs)))\n')
    env = dict(os.environ, PYTHONPATH=VERIF + os.pathsep + os.environ.get('PYTHONPATH', ''))
    p = subprocess.run([sys.executable, '-W', 'ignore', '-c', code, pid, tier, str(seed)], input=json.dumps(units),
                       capture_output=True, text=True, env=env, cwd=VERIF)
    for ln in p.stdout.splitlines():
        if ln.startswith('UNIT-SIGS '):
            return set(json.loads(ln[10:]))
    return set()


def run(pid, tier, seed, jobs=None, replay=None, quiet=False):
    global _CHECK, _TIER, _SEED
    t0 = time.time()
    bind_repo()
    chk = load_check(pid)
    if replay:
        with open(replay) as fh:
            rep = json.load(fh)
        chk.setup(rep.get('tier', tier), rep.get('seed', seed))
        R = Result()
        if isinstance(rep['case'], dict) and 'units_replay' in rep['case']:
            # the artefact is a sequence of units (what one worker process executed, in order)
            chk.units(rep.get('tier', tier), rep.get('seed', seed))
            for u in rep['case']['units_replay']:
                R.merge(chk.run_unit(u, rep.get('tier', tier), rep.get('seed', seed)).export())
        elif isinstance(rep['case'], dict) and 'unit_replay' in rep['case']:
            # the artefact is a whole unit (a fixed sequence of cases run by one fresh process)
            chk.units(rep.get('tier', tier), rep.get('seed', seed))
            R = chk.run_unit(rep['case']['unit_replay'], rep.get('tier', tier), rep.get('seed', seed))
        else:
            chk.check_case(rep['case'], R, rep.get('seed', seed))
        for v in R.violations:
            print(f"REPLAY-VIOLATION property={pid} sig={v['sig']} detail={v['detail']}")
        print('replay:', 'reproduced' if R.violations else 'no violation')
        return 1 if R.violations else 0

    chk.setup(tier, seed)
    units = chk.units(tier, seed)
    _CHECK, _TIER, _SEED = chk, tier, seed
    jobs = jobs or int(os.environ.get('VERIF_JOBS', '0')) or min(16, os.cpu_count() or 1)
    total = Result()
    if jobs > 1 and len(units) > 1:
        ctx = mp.get_context('fork')
        with ctx.Pool(jobs) as pool:
            for d in pool.imap_unordered(_worker, units, chunksize=1):
                total.merge(d)
    else:
        for u in units:
            total.merge(_worker(u))

    # -- violations: confirm by replay, then classify ------------------------
    findings = load_findings()
    open_sigs = {f['signature']: f for f in findings
                 if f.get('status') == 'open' and f.get('property') == pid}
    by_sig = {}
    for v in total.violations:
        by_sig.setdefault(v['sig'], []).append(v)
    exit_code = 0
    lines = []
    harness_errors = 0
    new_viol = 0
    known_seen = []
    for sig in sorted(by_sig):
        v = by_sig[sig][0]
        if sig.startswith('harness/'):
            harness_errors += 1
            path = write_replay(pid, sig, 0, v, seed, tier)
            lines.append(f'HARNESS-ERROR property={pid} sig={sig} replay={path}')
            lines.append(v['detail'])
            exit_code = exit_code or 2
            continue
        # deterministic replay from a fresh accumulator (the recorded cases of this signature are tried in
        # turn: a case may depend on what its worker process executed before it)
        reproduced = False
        for cand in by_sig[sig][:12]:
            R2 = Result()
            try:
                chk.check_case(cand['case'], R2, seed)
            except Exception:
                R2.violation('harness/replay-exception', cand['case'], traceback.format_exc()[-800:])
            if sig in {x['sig'] for x in R2.violations}:
                reproduced, v = True, cand
                break
        if not reproduced and not sig.startswith('harness/'):
            # the case may need what its unit executed before it in the same process (state kept on a class or
            # module): a unit is a fixed sequence of cases, so re-run the whole unit from a FRESH interpreter
            for cand in by_sig[sig][:3]:
                if 'unit' in cand and sig in unit_in_fresh_process(pid, tier, seed, cand['unit']):
                    reproduced = True
                    v = dict(cand, case={'unit_replay': cand['unit'], 'first_failing_case': cand['case']})
                    break
        if not reproduced and not sig.startswith('harness/'):
            # ... or what the worker process executed in EARLIER units (state keyed by names, sizes, paths, object
            # identities): re-run the worker's whole sequence of units, in order, from a fresh interpreter - twice
            for cand in [c for c in by_sig[sig] if 'hist' in c][:2]:
                if sig in units_in_fresh_process(pid, tier, seed, cand['hist']) and \
                        sig in units_in_fresh_process(pid, tier, seed, cand['hist']):
                    reproduced = True
                    v = dict(cand, case={'units_replay': cand['hist'], 'first_failing_case': cand['case']})
                    break
        if not reproduced:
            path = write_replay(pid, sig, 0, v, seed, tier)
            lines.append(f'HARNESS-ERROR property={pid} sig={sig} did not reproduce on replay '
                         f'(nondeterminism not owned) replay={path}')
            exit_code = exit_code or 2
            continue
        if sig in open_sigs:
            lines.append(f"KNOWN-FINDING: property={pid} {open_sigs[sig]['what']} "
                         f"[{sig}; {total.viol_count[sig]} cases]")
            known_seen.append({'signature': sig, 'cases': total.viol_count[sig], 'what': open_sigs[sig]['what']})
            continue
        new_viol += 1
        path = write_replay(pid, sig, 0, v, seed, tier)
        lines.append(f'VIOLATION property={pid} replay={path}')
        lines.append(f"  signature={sig} cases={total.viol_count[sig]} detail={v['detail'][:600]}")
        exit_code = 1          # a confirmed violation takes precedence over harness errors

    wall = time.time() - t0
    cov = {
        'evaluations': total.evaluations,
        'distinct_nontrivial': total.nontrivial,
        'rule': chk.rule,
        'samples': total.samples or [{'note': 'no sample recorded'}],
        'exhaustive': bool(chk.exhaustive),
        'units': len(units),
        'bounds': chk.bounds,
        'classes': dict(sorted(total.classes.items())),
        'distinct_outcomes': len(total.outcomes),
        'outcomes': dict(sorted(total.outcomes.items(), key=lambda kv: -kv[1])[:25]),
        'cut_at_horizon': total.cut,
        'violations_by_signature': total.viol_count,
    }
    cov.update({k: v for k, v in total.extra.items()})
    if chk.level == 'model_checking':
        cov['states'] = max(total.states, 1)
        cov['transitions'] = max(total.transitions, 1)
        cov['traces_validated_against_impl'] = total.traces
    ev = {
        'property_id': pid, 'tier': tier, 'seed': seed, 'level': chk.level,
        'coverage': cov, 'assumptions': list(chk.assumptions),
        'wall_s': round(wall, 3), 'violations': new_viol,
        'known_findings_seen': known_seen,          # confirmed violations listed as open in /verif/known_findings.json
    }
    evdir = os.environ.get('VERIF_EVIDENCE_DIR') or os.path.join(VERIF, 'evidence')
    os.makedirs(evdir, exist_ok=True)
    evpath = os.path.join(evdir, f'{pid}.json')
    with open(evpath, 'w') as fh:
        json.dump(ev, fh, indent=1, default=str)
    ok = validate_evidence(evpath)
    if ok not in (True, None):
        lines.append(f'HARNESS-ERROR evidence does not validate: {ok}')
        exit_code = exit_code or 2
    for ln in lines:
        print(ln)
    if not quiet:
        print(f'{pid} tier={tier} seed={seed} units={len(units)} evaluations={total.evaluations} '
              f'distinct_nontrivial={total.nontrivial} states={total.states} '
              f'transitions={total.transitions} outcomes={len(total.outcomes)} '
              f'cut={total.cut} violations={new_viol} wall={wall:.1f}s')
    return exit_code


def main(argv=None):
    import argparse
    ap = argparse.ArgumentParser()
    ap.add_argument('pid')
    ap.add_argument('--tier', default=os.environ.get('VERIF_TIER', 'quick'))
    ap.add_argument('--replay')
    ap.add_argument('--jobs', type=int)
    a = ap.parse_args(argv)
    seed = int(os.environ.get('VERIF_SEED', '0') or 0)
    tier = a.tier if a.tier in ('quick', 'thorough') else 'quick'
    sys.exit(run(a.pid.upper(), tier, seed, a.jobs, a.replay))
