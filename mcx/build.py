"""In-memory builders: topology text, coordinate text, real Molecule/System objects.

Everything goes through the *real* parsers (read_topology, MoleculeTop, GroFile,
SystemGro, System): the library accepts an open file object carrying .name/.mode.
"""
import io
import os
import shutil
import tempfile

import numpy as np


class MemFile(io.StringIO):
    """StringIO accepted by the parsers as an already opened read-mode file."""

    def __init__(self, text, name):
        super().__init__(text)
        self.name = name
        self.mode = 'r'


# ---------------------------------------------------------------------------
# text builders
def itp_text(name, atoms, bonds, numbering=None, sections=None):
    """atoms: list of (atom name, resname, resid); bonds: list of 0-based pairs.

    numbering: list of file atom numbers (default 1..n).
    """
    n = len(atoms)
    nr = numbering or list(range(1, n + 1))
    out = ['[ moleculetype ]', f'{name} 1', '', '[ atoms ]']
    for i, (an, rn, ri) in enumerate(atoms):
        out.append(f'{nr[i]:6d} T{i % 7} {ri:5d} {rn:5s} {an:5s} {nr[i]:5d} 0.0 12.0')
    out.append('')
    if bonds:
        out.append('[ bonds ]')
        for a, b in bonds:
            out.append(f'{nr[a]:6d} {nr[b]:6d} 1 0.15 1000')
        out.append('')
    return '\n'.join(out) + '\n'


def gro_line(resid, resname, name, atomid, pos, vel=None, fmt=(8, 3)):
    w, d = fmt
    s = f'{resid % 100000:5d}{resname:5s}{name:>5s}{atomid % 100000:5d}'
    s += ''.join(f'{x:{w}.{d}f}' for x in pos)
    if vel is not None:
        s += ''.join(f'{x:{w}.{d + 1}f}' for x in vel)
    return s


def box_line(box):
    box = np.asarray(box, dtype=float)
    if box.shape == (3,):
        return ' '.join(f'{x:9.5f}' for x in box)
    v = [box[0, 0], box[1, 1], box[2, 2], box[0, 1], box[0, 2], box[1, 0],
         box[1, 2], box[2, 0], box[2, 1]]
    if any(v[3:]):
        return ' '.join(f'{x:9.5f}' for x in v)
    return ' '.join(f'{x:9.5f}' for x in v[:3])


def gro_text(records, title='t', box=(5.0, 5.0, 5.0), fmt=(8, 3)):
    """records: list of (resid, resname, name, atomid, pos[, vel])."""
    lines = [title, f'{len(records):5d}']
    for r in records:
        vel = r[5] if len(r) > 5 else None
        lines.append(gro_line(r[0], r[1], r[2], r[3], r[4], vel, fmt))
    lines.append(box_line(box))
    return '\n'.join(lines) + '\n'


# ---------------------------------------------------------------------------
# real objects
def molecule_top(name, atoms, bonds, numbering=None):
    from gaddlemaps.components import MoleculeTop
    return MoleculeTop(MemFile(itp_text(name, atoms, bonds, numbering), name + '.itp'))


def molecule(name, atoms, bonds, positions, velocities=None, resid_offset=0, fmt=(11, 6)):
    """Real Molecule built through System(gro, itp) from in-memory files.

    positions are rounded by the .gro format (default 6 decimals); the returned
    molecule is then given the exact positions through its public setter.
    """
    from gaddlemaps.components import System
    recs = []
    for i, (an, rn, ri) in enumerate(atoms):
        vel = None if velocities is None else velocities[i]
        recs.append((ri + resid_offset, rn, an, i + 1, positions[i], vel))
    gro = MemFile(gro_text(recs, fmt=(fmt[1] + 5, fmt[1])), name + '.gro')
    itp = MemFile(itp_text(name, atoms, bonds), name + '.itp')
    syst = System(gro, itp)
    assert len(syst) == 1, len(syst)
    mol = syst[0]
    mol.atoms_positions = np.array(positions, dtype=float)
    if velocities is not None:
        mol.atoms_velocities = np.array(velocities, dtype=float)
    return mol


def simple_atoms(n, resname='MOL', prefix='C', resid=1):
    return [(f'{prefix}{i + 1}', resname, resid) for i in range(n)]


# ---------------------------------------------------------------------------
# geometry tables
_GP_CACHE = {}


def generic_points(n, seed, scale=1.0, min_sep=0.08, min_sin=0.25, tag=0):
    """Cached wrapper (returns a fresh copy) around _generic_points."""
    key = (n, seed, scale, min_sep, min_sin, tag)
    if key not in _GP_CACHE:
        _GP_CACHE[key] = _generic_points(n, seed, scale, min_sep, min_sin if n <= 12 else 0.0, tag)
    return _GP_CACHE[key].copy()


def _generic_points(n, seed, scale, min_sep, min_sin, tag):
    """n points, deterministic in (seed, tag), well conditioned: pairwise separations
    >= min_sep*scale and every triple has sin(angle) >= min_sin (no near-collinearity)."""
    rng = np.random.default_rng([int(seed), int(tag), 7919])
    pts = []
    tries = 0
    while len(pts) < n:
        tries += 1
        if tries > 200000:
            raise RuntimeError('generic_points: cannot satisfy conditioning')
        p = rng.uniform(-0.5, 0.5, 3) * (1.0 + 0.15 * n)
        ok = all(np.linalg.norm(p - q) >= min_sep for q in pts)
        if ok and len(pts) >= 2 and min_sin > 0:
            for i in range(len(pts)):
                for j in range(i + 1, len(pts)):
                    for a, b, c in ((pts[i], pts[j], p), (pts[j], p, pts[i]), (p, pts[i], pts[j])):
                        u, v = b - a, c - a
                        s = np.linalg.norm(np.cross(u, v)) / (np.linalg.norm(u) * np.linalg.norm(v))
                        if s < min_sin:
                            ok = False
                            break
                    if not ok:
                        break
                if not ok:
                    break
        if ok:
            pts.append(p)
    return np.array(pts) * scale


def cube_rotations():
    """The 24 proper rotations of the cube: signed permutation matrices (exact)."""
    import itertools
    out = []
    for perm in itertools.permutations(range(3)):
        for signs in itertools.product((1, -1), repeat=3):
            m = np.zeros((3, 3))
            for i in range(3):
                m[i, perm[i]] = signs[i]
            if round(np.linalg.det(m)) == 1:
                out.append(m)
    assert len(out) == 24
    return out


def generic_rotations(seed, k=3):
    rng = np.random.default_rng([int(seed), 104729])
    out = []
    for _ in range(k):
        q, r = np.linalg.qr(rng.normal(size=(3, 3)))
        q = q * np.sign(np.diag(r))
        if np.linalg.det(q) < 0:
            q[:, 0] = -q[:, 0]
        out.append(q)
    return out


class Scratch:
    """Scratch directory outside /repo and /verif, removed on exit."""

    def __init__(self):
        base = os.environ.get('VERIF_SCRATCH') or ('/dev/shm' if os.path.isdir('/dev/shm') else None)
        self.path = tempfile.mkdtemp(prefix='mcx-', dir=base)

    def __enter__(self):
        return self.path

    def __exit__(self, *a):
        shutil.rmtree(self.path, ignore_errors=True)
