"""Stateless choice-point exploration by prefix replay (CHESS / loom shape).

run(ctx) executes the real code once; wherever the execution could go more than one
way, it (or an injected seam) calls ctx.choose(n, tag).  All choice vectors are
enumerated depth first; beyond the replayed prefix every choice is 0 (the default
answer), a non-zero choice is a *deviation*, and at most ``max_dev`` deviations are
allowed per execution (None = unbounded = plain exhaustive product).
"""


class Horizon(Exception):
    """Raised by a harness to cut an execution at its explicit horizon."""


class ReplayDivergence(Exception):
    pass


class Ctx:
    def __init__(self, prefix):
        self.prefix = list(prefix)
        self.trace = []
        self.arity = []
        self.tags = []
        self.data = {}

    def choose(self, n, tag=''):
        i = len(self.trace)
        if i < len(self.prefix):
            c = self.prefix[i]
            if not 0 <= c < n:
                raise ReplayDivergence(f'choice {i} ({tag}): replayed {c} out of range {n}')
        else:
            c = 0
        self.trace.append(c)
        self.arity.append(n)
        self.tags.append(tag)
        return c


def explore(run, max_dev=None, on_exec=None, max_exec=None, root=()):
    """Enumerate every choice vector of ``run`` with at most max_dev deviations.

    root: fixed leading choices (a partition cell of the space: only vectors starting
    with root are explored; its non-zero entries count as deviations).
    run(ctx) -> observation (any).  on_exec(ctx, obs, cut) is called once per
    execution.  Returns dict(executions, cut, points, capped).
    """
    root = list(root)
    prefix = list(root)
    stats = {'executions': 0, 'cut': 0, 'points': 0, 'capped': False, 'max_len': 0}
    while True:
        ctx = Ctx(prefix)
        cut = False
        try:
            obs = run(ctx)
        except Horizon:
            obs = None
            cut = True
        if len(ctx.trace) < len(prefix):
            raise ReplayDivergence(f'execution consumed {len(ctx.trace)} choices, prefix has {len(prefix)}')
        stats['executions'] += 1
        stats['cut'] += int(cut)
        stats['points'] += len(ctx.trace)
        stats['max_len'] = max(stats['max_len'], len(ctx.trace))
        if on_exec is not None:
            on_exec(ctx, obs, cut)
        if max_exec is not None and stats['executions'] >= max_exec:
            stats['capped'] = True
            return stats
        # next vector: rightmost position that can be incremented within the bound
        trace, arity = ctx.trace, ctx.arity
        i = len(trace) - 1
        nxt = None
        while i >= len(root):
            if trace[i] + 1 < arity[i]:
                if max_dev is None:
                    nxt = trace[:i] + [trace[i] + 1]
                    break
                dev_before = sum(1 for c in trace[:i] if c)
                if dev_before + 1 <= max_dev:
                    nxt = trace[:i] + [trace[i] + 1]
                    break
            i -= 1
        if nxt is None:
            return stats
        prefix = nxt


def roots(run, max_dev, depth):
    """All choice prefixes of length <= depth that partition the space explored by
    explore(run, max_dev): a prefix shorter than depth is a complete execution."""
    out = []

    def rec(prefix):
        ctx = Ctx(prefix)
        try:
            run(ctx)
        except Horizon:
            pass
        if len(ctx.trace) <= len(prefix) or len(prefix) >= depth:
            out.append(list(prefix))
            return
        i = len(prefix)
        dev = sum(1 for c in prefix if c)
        for c in range(ctx.arity[i]):
            if max_dev is not None and dev + (1 if c else 0) > max_dev:
                continue
            rec(prefix + [c])
    rec([])
    return out


def selftest():
    # full product 2*3*2 = 12
    seen = []

    def run(ctx):
        a = ctx.choose(2)
        b = ctx.choose(3)
        c = ctx.choose(2)
        return (a, b, c)
    st = explore(run, None, lambda ctx, o, cut: seen.append(o))
    assert st['executions'] == 12 and len(set(seen)) == 12
    # deviation bound 1: 1 + (1 + 2 + 1) = 5
    seen.clear()
    st = explore(run, 1, lambda ctx, o, cut: seen.append(o))
    assert sorted(seen) == sorted([(0, 0, 0), (1, 0, 0), (0, 1, 0), (0, 2, 0), (0, 0, 1)]), seen
    # dependent arity
    seen.clear()

    def run2(ctx):
        a = ctx.choose(3)
        out = [a]
        for _ in range(a):
            out.append(ctx.choose(2))
        return tuple(out)
    st = explore(run2, None, lambda ctx, o, cut: seen.append(o))
    assert st['executions'] == 1 + 2 + 4 and len(set(seen)) == 7
    # roots partition the space
    tot = 0
    for r in roots(run, None, 2):
        tot += explore(run, None, root=r)['executions']
    assert tot == 12, tot
    tot = sum(explore(run, 1, root=r)['executions'] for r in roots(run, 1, 2))
    assert tot == 5, tot
    tot = sum(explore(run2, None, root=r)['executions'] for r in roots(run2, None, 2))
    assert tot == 7, tot
    return True
