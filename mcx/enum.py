"""Complete enumerators (self-tested against closed forms in selftest())."""
import itertools


def prufer_to_edges(seq, n):
    """Labelled tree on vertices 0..n-1 from a Pruefer sequence of length n-2."""
    if n == 1:
        return []
    if n == 2:
        return [(0, 1)]
    degree = [1] * n
    for v in seq:
        degree[v] += 1
    edges = []
    for v in seq:
        for u in range(n):
            if degree[u] == 1:
                edges.append((min(u, v), max(u, v)))
                degree[u] -= 1
                degree[v] -= 1
                break
    u, w = [x for x in range(n) if degree[x] == 1]
    edges.append((u, w))
    return sorted(edges)


def all_trees(n):
    """Every labelled tree on n vertices (n^(n-2) of them), as sorted edge lists."""
    if n <= 2:
        yield prufer_to_edges((), n)
        return
    for seq in itertools.product(range(n), repeat=n - 2):
        yield prufer_to_edges(seq, n)


def all_graphs(n):
    """Every labelled simple graph on n vertices (2^(n(n-1)/2))."""
    pairs = list(itertools.combinations(range(n), 2))
    for mask in range(1 << len(pairs)):
        yield [pairs[i] for i in range(len(pairs)) if mask >> i & 1]


def adjacency(n, edges):
    adj = [set() for _ in range(n)]
    for a, b in edges:
        adj[a].add(b)
        adj[b].add(a)
    return adj


def components(n, edges):
    parent = list(range(n))

    def find(x):
        while parent[x] != x:
            parent[x] = parent[parent[x]]
            x = parent[x]
        return x
    for a, b in edges:
        ra, rb = find(a), find(b)
        if ra != rb:
            parent[ra] = rb
    comp = {}
    for v in range(n):
        comp.setdefault(find(v), []).append(v)
    return sorted(comp.values())


def is_connected(n, edges):
    return len(components(n, edges)) == 1


def connected_graphs(n):
    for e in all_graphs(n):
        if is_connected(n, e):
            yield e


def de_bruijn(k, n):
    """de Bruijn sequence B(k, n) over alphabet 0..k-1 (cyclic), as a list."""
    a = [0] * (k * n)
    seq = []

    def db(t, p):
        if t > n:
            if n % p == 0:
                seq.extend(a[1:p + 1])
        else:
            a[t] = a[t - p]
            db(t + 1, p)
            for j in range(a[t - p] + 1, k):
                a[t] = j
                db(t + 1, t)
    db(1, 1)
    return seq


def de_bruijn_linear(k, n):
    """Linear word of length k^n + n - 1 containing every length-n window once."""
    s = de_bruijn(k, n)
    return s + s[:n - 1]


def chain(n):
    return [(i, i + 1) for i in range(n - 1)]


def star(n):
    return [(0, i) for i in range(1, n)]


def caterpillar(n):
    spine = (n + 1) // 2
    e = [(i, i + 1) for i in range(spine - 1)]
    for k in range(n - spine):
        e.append((k, spine + k))
    return sorted(e)


def binary_tree(n):
    return [((i - 1) // 2, i) for i in range(1, n)]


def selftest():
    for n, want in [(1, 1), (2, 1), (3, 3), (4, 16), (5, 125), (6, 1296)]:
        trees = list(all_trees(n))
        assert len(trees) == want, (n, len(trees))
        assert len({tuple(t) for t in trees}) == want
        for t in trees:
            assert len(t) == n - 1 and is_connected(n, t)
    for n, want in [(1, 1), (2, 2), (3, 8), (4, 64), (5, 1024)]:
        assert sum(1 for _ in all_graphs(n)) == want
    # connected labelled graphs: 1, 1, 4, 38, 728
    for n, want in [(1, 1), (2, 1), (3, 4), (4, 38), (5, 728)]:
        assert sum(1 for _ in connected_graphs(n)) == want
    for k, n in [(2, 3), (3, 2), (4, 2), (5, 3)]:
        w = de_bruijn_linear(k, n)
        assert len(w) == k ** n + n - 1
        wins = {tuple(w[i:i + n]) for i in range(len(w) - n + 1)}
        assert len(wins) == k ** n
    for f in (chain, star, caterpillar, binary_tree):
        for n in (2, 5, 20, 60):
            e = f(n)
            assert len(e) == n - 1 and is_connected(n, e), (f.__name__, n)
    return True
