#!/bin/sh
# Offline setup: nothing is fetched or installed; run the enumerator/explorer self-tests.
HERE="$(cd "$(dirname "$0")" && pwd)"
cd "$HERE" || exit 2
export PYTHONDONTWRITEBYTECODE=1 PYTHONPATH="$HERE"
mkdir -p evidence replays
exec /venv/bin/python -W ignore -c '
from mcx import enum, explore, core
assert enum.selftest() and explore.selftest()
g = core.bind_repo()
print("setup ok: gaddlemaps from", g.__file__)
'
